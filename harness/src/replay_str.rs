//! replay of string-level behaviours (profiles, string classes, context rules, bidi)
use crate::api::*;
use crate::oracle::Oracle;
use crate::replay::Tally;
use crate::util::*;
use precis_core::{DerivedPropertyValue, FreeformClass, StringClass};
use serde_json::{json, Value};
use std::collections::HashMap;
use unicode_normalization::UnicodeNormalization;

pub struct Ctx {
    pub oracle: Option<Oracle>,
    pub seed: u64,
    pub forms: bool,
    pub draws: u64,
    pub by_class: HashMap<String, Vec<u32>>,
}

impl Ctx {
    pub fn new(args: &[String]) -> Ctx {
        let oracle = arg_value(args, "--oracle").map(|p| Oracle::load(&p));
        let mut by_class: HashMap<String, Vec<u32>> = HashMap::new();
        if let Some(o) = oracle.as_ref() {
            // code points assigned in 16.0.0, by bidirectional class (for instantiating class sequences)
            for cp in 0..crate::oracle::N as u32 {
                if (0xD800..=0xDFFF).contains(&cp) || !o.assigned16[cp as usize] {
                    continue;
                }
                by_class.entry(o.bidi_of(cp).to_string()).or_default().push(cp);
            }
        }
        Ctx {
            oracle,
            seed: arg_u64(args, "--seed", 1),
            forms: args.iter().any(|a| a == "--forms"),
            draws: arg_u64(args, "--draws", 1),
            by_class,
        }
    }
}

pub fn class_of_profile(p: &str) -> &'static str {
    if p == "UCM" || p == "UCP" {
        "Id"
    } else {
        "Ff"
    }
}

pub fn direct_lower(s: &str) -> String {
    s.chars().flat_map(|c| c.to_lowercase()).collect()
}

/// C08 on a successful enforce result: no forbidden character, no drift
pub fn c08_check(p: &str, out: &str) -> Option<Value> {
    let cls = class_of_profile(p);
    for (i, c) in out.chars().enumerate() {
        // the output is classified through BOTH entry points of the class: the validation the pipeline itself
        // ran used only one of them
        for v in [class_value_char(cls, c), class_value_g(cls, c as u32)] {
            if v == "DISALLOWED" || v == "UNASSIGNED" {
                return Some(json!({"c08": "forbidden", "cp": c as u32, "pos": i, "prop": v}));
            }
        }
    }
    let again = call_profile(p, "enforce", &[out.to_string()]);
    if let Some(o2) = again.get("ok") {
        if *o2 != string_to_cps(out) {
            return Some(json!({"c08": "drift", "second": again}));
        }
    } else if again.get("panic").is_some() {
        return Some(json!({"c08": "panic", "second": again}));
    }
    None
}

fn replay_op(ctx: &Ctx, doc: &Value, t: &mut Tally) {
    let p = doc["p"].as_str().unwrap();
    let op = doc["op"].as_str().unwrap();
    let input = cps_to_string(&doc["in"]).unwrap_or_else(|| tool_error("bad input"));
    // sanity of the generated universe: steps the model normalized / lower-cased are recomputed
    // with the reference functions called directly.  A disagreement is a tool error.
    if let Some(steps) = doc.get("steps").and_then(|s| s.as_array()) {
        let mut prev = input.clone();
        for st in steps {
            let name = st["name"].as_str().unwrap();
            if let Some(out) = st["out"].get("ok") {
                let out_s = cps_to_string(out).unwrap();
                let direct = match name {
                    "nfc" => Some(prev.nfc().collect::<String>()),
                    "nfkc" => Some(prev.nfkc().collect::<String>()),
                    "lower" => Some(direct_lower(&prev)),
                    _ => None,
                };
                if let Some(d) = direct {
                    if d != out_s {
                        t.mismatch(json!({"toolerr": "model step disagrees with the reference function called directly",
                                          "step": name, "in": string_to_cps(&prev), "model": out, "direct": string_to_cps(&d)}));
                        return;
                    }
                }
                prev = out_s;
            }
        }
    }
    // non-trivial: the operation failed, changed the string, or executed more than one pipeline step
    let steps_n = doc.get("steps").and_then(|s| s.as_array()).map(|a| a.len()).unwrap_or(0);
    if doc["res"].get("err").is_some() || doc["res"].get("ok").map(|o| *o != doc["in"]).unwrap_or(false) || steps_n > 1 {
        t.nontrivial += 1;
    }
    let args = [input.clone()];
    let actual = call_profile(p, op, &args);
    t.executions += 1;
    if actual != doc["res"] {
        let dev = doc.get("devres").map(|d| *d == actual).unwrap_or(false);
        t.mismatch(json!({"k": "op", "p": p, "op": op, "in": doc["in"], "expected": doc["res"], "actual": actual,
                          "dev": if dev { json!("bidi_nsm_strict") } else { Value::Null }}));
    }
    if op == "enforce" {
        if let Some(o) = actual.get("ok") {
            if let Some(m) = c08_check(p, &cps_to_string(o).unwrap()) {
                t.mismatch(json!({"k": "c08", "p": p, "in": doc["in"], "out": o, "what": m}));
            }
        }
    }
    if ctx.forms && (op == "prepare" || op == "enforce") {
        for form in ["static", "long"] {
            for (kn, kind) in ARG_KINDS.iter() {
                let (v, _) = call_profile_full(p, form, op, *kind, &args);
                t.executions += 1;
                if v != actual {
                    t.mismatch(json!({"k": "c16form", "p": p, "op": op, "in": doc["in"], "form": form, "arg": kn,
                                      "reference": actual, "actual": v}));
                }
            }
        }
    }
}

fn replay_cmpop(ctx: &Ctx, doc: &Value, t: &mut Tally) {
    let p = doc["p"].as_str().unwrap();
    let a = cps_to_string(&doc["a"]).unwrap();
    let b = cps_to_string(&doc["b"]).unwrap();
    let args = [a, b];
    let actual = call_profile(p, "compare", &args);
    t.executions += 1;
    if actual != doc["res"] {
        let dev = doc.get("devres").map(|d| *d == actual).unwrap_or(false);
        t.mismatch(json!({"k": "compare", "p": p, "a": doc["a"], "b": doc["b"], "expected": doc["res"], "actual": actual,
                          "dev": if dev { json!("bidi_nsm_strict") } else { Value::Null }}));
    }
    if ctx.forms {
        // static form with views of one buffer where one operand contains the other; instance form with separately
        // allocated operands
        for (form, kind, kn) in [("static", ArgKind::Str, "views"), ("inst", ArgKind::Owned, "separate"), ("long", ArgKind::CowBorrowed, "views")] {
            let (v, _) = call_profile_full(p, form, "compare", kind, &args);
            t.executions += 1;
            if v != actual {
                t.mismatch(json!({"k": "c16form", "p": p, "op": "compare", "a": doc["a"], "b": doc["b"], "form": form, "operands": kn,
                                  "reference": actual, "actual": v}));
            }
        }
    }
    if doc["res"].get("eq").is_some() && doc["a"] != doc["b"] {
        t.nontrivial += 1;
    }
}

fn replay_ctx(doc: &Value, t: &mut Tally) {
    let s = cps_to_string(&doc["s"]).unwrap();
    let off = doc["off"].as_u64().unwrap() as usize;
    let rule = doc["rule"].as_str().unwrap();
    let actual = call_ctx(rule, &s, off);
    t.executions += 1;
    if actual != doc["res"] {
        t.mismatch(json!({"k": "ctx", "rule": rule, "s": doc["s"], "off": off, "expected": doc["res"], "actual": actual}));
    }
    if doc["res"].get("bool").is_some() {
        t.nontrivial += 1;
    }
}

fn replay_allows(doc: &Value, t: &mut Tally) {
    let s = cps_to_string(&doc["s"]).unwrap();
    let cls = doc["cls"].as_str().unwrap();
    let actual = call_allows(cls, &s);
    t.executions += 1;
    if actual != doc["res"] {
        t.mismatch(json!({"k": "allows", "cls": cls, "s": doc["s"], "expected": doc["res"], "actual": actual}));
    }
    if doc["res"].get("err").is_some() {
        t.nontrivial += 1;
    }
}

/// a user-supplied string class: arbitrary property assignment for some characters, the
/// FreeformClass value for all others; `allows` is the trait's DEFAULT method (the code under test)
struct TableClass {
    assign: HashMap<u32, DerivedPropertyValue>,
    base: FreeformClass,
}

impl StringClass for TableClass {
    fn get_value_from_char(&self, c: char) -> DerivedPropertyValue {
        self.get_value_from_codepoint(c as u32)
    }
    fn get_value_from_codepoint(&self, cp: u32) -> DerivedPropertyValue {
        match self.assign.get(&cp) {
            Some(v) => *v,
            None => self.base.get_value_from_codepoint(cp),
        }
    }
}

fn replay_tclass(doc: &Value, t: &mut Tally) {
    let s = cps_to_string(&doc["s"]).unwrap();
    let mut assign = HashMap::new();
    for pair in doc["assign"].as_array().unwrap() {
        assign.insert(
            pair[0].as_u64().unwrap() as u32,
            prop_from_name(pair[1].as_str().unwrap()).unwrap_or_else(|| tool_error("property name")),
        );
    }
    let cls = TableClass { assign, base: FreeformClass::default() };
    let actual = guarded(|| unit_result(cls.allows(&s)));
    t.executions += 1;
    if actual != doc["res"] {
        t.mismatch(json!({"k": "tclass", "assign": doc["assign"], "s": doc["s"], "expected": doc["res"], "actual": actual}));
    }
    if doc["res"].get("err").is_some() {
        t.nontrivial += 1;
    }
}

/// a sequence of bidirectional classes, instantiated with code points assigned in 16.0.0
fn replay_bidi(ctx: &Ctx, doc: &Value, t: &mut Tally, idx: u64) {
    let classes: Vec<&str> = doc["cs"].as_array().unwrap().iter().map(|c| c.as_str().unwrap()).collect();
    let mut rng = Rng::new(ctx.seed.wrapping_mul(1_000_003).wrapping_add(idx));
    for draw in 0..ctx.draws {
        let mut s = String::new();
        for c in classes.iter() {
            let pool = ctx.by_class.get(*c).unwrap_or_else(|| tool_error("no code point of class"));
            // first draw: first member of the class; later draws: random members
            let cp = if draw == 0 { pool[0] } else { *rng.pick(pool) };
            s.push(char::from_u32(cp).unwrap());
        }
        for p in ["UCM", "UCP"] {
            let r = call_profile(p, "directionality_rule", &[s.clone()]);
            t.executions += 1;
            let expected = if doc["ok"].as_bool().unwrap() { json!({"ok": string_to_cps(&s)}) } else { json!({"err": "Invalid"}) };
            if r != expected {
                let devexp = if doc["devok"].as_bool().unwrap() { json!({"ok": string_to_cps(&s)}) } else { json!({"err": "Invalid"}) };
                t.mismatch(json!({"k": "bidi", "p": p, "cs": doc["cs"], "s": string_to_cps(&s), "expected": expected, "actual": r,
                                  "dev": if r == devexp { json!("bidi_nsm_strict") } else { Value::Null }}));
            }
        }
    }
    if doc["rtl"].as_bool().unwrap_or(false) {
        t.nontrivial += 1;
    }
}

pub fn replay(ctx: &Ctx, doc: &Value, t: &mut Tally) {
    match doc["k"].as_str().unwrap_or("") {
        "op" => replay_op(ctx, doc, t),
        "compare" => replay_cmpop(ctx, doc, t),
        "ctx" => replay_ctx(doc, t),
        "allows" => replay_allows(doc, t),
        "tclass" => replay_tclass(doc, t),
        "bidi" => replay_bidi(ctx, doc, t, t.n),
        _ => t.mismatch(json!({"toolerr": "unknown replay kind", "case": doc})),
    }
}
