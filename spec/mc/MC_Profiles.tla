----------------------------- MODULE MC_Profiles -----------------------------
(***************************************************************************)
(* The profiles as a pipeline MACHINE over every string up to MaxLen over  *)
(* a generated alphabet (MiniUnicode.tla):                                 *)
(*   Build   appends one character: every string is a reachable state      *)
(*   Start   begins an operation (profile, op) on the string built so far  *)
(*   Step    applies the next named step of the pipeline (one action per   *)
(*           step of the code); for the iterated profile the end of a      *)
(*           round compares with the round's input (stabilize)             *)
(* On completion Emit prints the behaviour for replay into the real API.   *)
(***************************************************************************)
EXTENDS Profiles, MiniUnicode, Json

CONSTANTS MaxLen,      \* bound on the input length
          Profs,       \* profiles exercised
          Ops,         \* operations exercised: prepare, enforce, and/or rule names
          FirstSyms,   \* sharding: allowed first characters ({} = all)
          FrameOn,     \* FALSE: every string up to MaxLen is built character by character;
                       \* TRUE: the inputs are the FRAMED strings  f^i x g^j y g^k  for every pair x, y of the
                       \* alphabet, all fillers f, g in Fillers and all counts i <= FI, j <= FJ, k <= FK (two special
                       \* characters at every distance and byte alignment in longer strings)
          FI, FJ, FK, Fillers

W == MiniW
WDev == [MiniW EXCEPT !.dev = {"bidi_nsm_strict"}]

VARIABLES input, phase, p, op, pipe, k, cur, n, roundIn, steps
vars == <<input, phase, p, op, pipe, k, cur, n, roundIn, steps>>
View == <<input, phase, p, op, k, cur, n, roundIn>>

Idle == /\ p = "" /\ op = "" /\ pipe = <<>> /\ k = 0 /\ cur = Ok(<<>>) /\ n = 0 /\ roundIn = <<>> /\ steps = <<>>

Rep(c, m) == [i \in 1..m |-> c]
Framed == {Rep(f, i) \o <<x>> \o Rep(g, j) \o <<y>> \o Rep(g, kk) :
             f \in Fillers, g \in Fillers, x \in SigmaIn, y \in SigmaIn, i \in 0..FI, j \in 0..FJ, kk \in 0..FK}

Init == /\ IF FrameOn THEN input \in Framed ELSE input = <<>>
        /\ phase = "build" /\ Idle

Build(c) == /\ phase = "build" /\ Len(input) < MaxLen
            /\ (input = <<>> /\ FirstSyms # {}) => c \in FirstSyms
            /\ input' = Append(input, c)
            /\ UNCHANGED <<phase, p, op, pipe, k, cur, n, roundIn, steps>>

PipeOf(pp, o) == IF o = "prepare" THEN PrepareSteps(pp)
                 ELSE IF o = "enforce" THEN EnforceSteps(pp)
                 ELSE IF RuleStep(pp, o) = "" THEN <<>> ELSE <<RuleStep(pp, o)>>

Start(pp, o) == /\ phase = "build"
                /\ phase' = "run" /\ p' = pp /\ op' = o /\ pipe' = PipeOf(pp, o)
                /\ k' = 1 /\ cur' = Ok(input) /\ n' = 0 /\ roundIn' = input /\ steps' = <<>>
                /\ UNCHANGED input

IteratedOp == Iterated(p) /\ op = "enforce"

\* one named step of the pipeline
Step == /\ phase = "run" /\ k <= Len(pipe)
        /\ LET r == ApplyStep(W, pipe[k], cur.ok) IN
             /\ cur' = r
             /\ steps' = Append(steps, [name |-> pipe[k], out |-> r])
             /\ IF IsErr(r) THEN phase' = "done" /\ UNCHANGED k
                ELSE k' = k + 1 /\ UNCHANGED phase
        /\ UNCHANGED <<input, p, op, pipe, n, roundIn>>

\* the pipeline has been run through
Finish == /\ phase = "run" /\ k > Len(pipe)
          /\ IF op \in RuleNamesP /\ pipe = <<>>
             THEN cur' = ErrNoRule /\ phase' = "done" /\ UNCHANGED <<k, n, roundIn>>
             ELSE IF ~IteratedOp THEN phase' = "done" /\ UNCHANGED <<cur, k, n, roundIn>>
             ELSE IF cur.ok = roundIn THEN phase' = "done" /\ UNCHANGED <<cur, k, n, roundIn>>        \* stable
             ELSE IF n + 1 = MaxApps THEN cur' = ErrInvalid /\ phase' = "done" /\ UNCHANGED <<k, roundIn>> /\ n' = n + 1
             ELSE n' = n + 1 /\ roundIn' = cur.ok /\ k' = 1 /\ UNCHANGED <<cur, phase>>                \* re-apply
          /\ UNCHANGED <<input, p, op, pipe, steps>>

Next == \/ \E c \in SigmaIn : Build(c)
        \/ \E pp \in Profs, o \in Ops : Start(pp, o)
        \/ Step \/ Finish
Spec == Init /\ [][Next]_vars

Done == phase = "done"

\* ---- invariants --------------------------------------------------------------------
\* the machine computes the functional meaning of the call
Agree == Done => cur = Sem(W, p, op, <<input>>)

\* C04: every failure of prepare is also the result of enforce
PrepareFailurePropagates ==
  (phase = "build") => \A pp \in Profs : IsErr(Prepare(W, pp, input)) => Enforce(W, pp, input) = Prepare(W, pp, input)

\* C08: no universally forbidden character in an enforced string, and no drift
Forbidden(pp, c) == PropOf(ClassOf(pp), W.u[c].idp) \in {"DISALLOWED", "UNASSIGNED"}
OutputClean == (Done /\ op = "enforce" /\ IsOk(cur)) => \A i \in 1..Len(cur.ok) : ~Forbidden(p, cur.ok[i])
NoDrift == (Done /\ op = "enforce" /\ IsOk(cur)) =>
             LET r == Enforce(W, p, cur.ok) IN IsErr(r) \/ r = cur

\* C06: every accepted Nickname result is a fixed point of one application of the rules
FixedPoint == (Done /\ op = "enforce" /\ p = "NICK" /\ IsOk(cur)) => RunPipe(W, EnforceSteps("NICK"), cur.ok) = cur

\* C05: before NFC only non-ASCII spaces change
OnlySpacesChange == (phase = "build") =>
  LET m == PwSpaces(W, input) IN
    /\ Len(m) = Len(input)
    /\ \A i \in 1..Len(input) : m[i] = (IF NonAsciiSpace(W, input[i]) THEN SP ELSE input[i])

\* C10 / C11 / C12 / C01: implementation-shaped mappings equal the declarative ones, slices are on
\* character boundaries, and the mappings are idempotent
MappingsAgree == (phase = "build") =>
  /\ WidthMapImpl(W, input) = WidthMap(W, input)
  /\ CaseMapImpl(W, LAMBDA c : HasLower(W, c), input) = CaseMap(W, input)
  /\ PwSpacesImpl(W, input) = PwSpaces(W, input)
  /\ NickSpacesImpl(W, input) = [ok |-> NickSpaces(W, input)]
MappingsIdempotent == (phase = "build") =>
  /\ WidthMap(W, WidthMap(W, input)) = WidthMap(W, input)
  /\ PwSpaces(W, PwSpaces(W, input)) = PwSpaces(W, input)
  /\ NickSpaces(W, NickSpaces(W, input)) = NickSpaces(W, input)
  /\ CaseMap(W, CaseMap(W, input)) = CaseMap(W, input)

\* the string-class loop equals its declarative formulation (C02) on every string
AllowsAgree == (phase = "build") => \A cls \in {"Id", "Ff"} : AllowsScan(W, cls, input) = Allows(W, cls, input)

\* the power law of Profiles.tla on every string of up to three characters, squared and cubed
PowerLawHolds == (phase = "build" /\ input # <<>> /\ Len(input) <= 3) =>
  \A pp \in Profs, o \in (Ops \cap ({"prepare", "enforce"} \cup RuleNamesP)), nn \in {2, 3} : PowerLaw(W, pp, o, input, nn)

PadLawHolds == (phase = "build" /\ input # <<>> /\ Len(input) <= 3) =>
  \A pp \in Profs, o \in (Ops \cap ({"prepare", "enforce"} \cup RuleNamesP)), i \in 0..2, j \in 0..2 : PadLaw(W, pp, o, input, i, j)

\* the comparison form obeys the pad law as well; Compare is equality of comparison forms, so for two units with the
\* same head and tail  Compare(Pad(a), Pad(b)) = Compare(a, b)  (a reported position moves by i)
CompFormPadLaw == (phase = "build" /\ input # <<>> /\ Len(input) <= 3 /\ UnitString(W, input)) =>
  \A pp \in Profs, i \in 0..2, j \in 0..2 : CompForm(W, pp, Pad(input, i, j)) = PadResult(CompForm(W, pp, input), input, i, j)

\* ---- emission for replay -----------------------------------------------------------
DevRes == Sem(WDev, p, op, <<input>>)
Emit == Done => PrintT(<<"REPLAY", ToJson(
          IF DevRes = cur
          THEN [k |-> "op", p |-> p, op |-> op, in |-> input, res |-> cur, steps |-> steps]
          ELSE [k |-> "op", p |-> p, op |-> op, in |-> input, res |-> cur, steps |-> steps, devres |-> DevRes])>>)
=============================================================================
