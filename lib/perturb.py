"""C15, end to end and independent of the layout of the generated tables: a VARIATION of the real UCD data
(lines deleted, general categories / combining classes / bidi classes / scripts / joining types changed, First/Last
ranges split, runs of single entries folded into First/Last ranges, property-file lines reordered and split) is
written into a scratch copy of the repository, the real crates are built from it (build scripts -> generators ->
tables), and every code point is sent through the public API and judged by TLC (layer L1) against an oracle
computed from the same varied data by our own parser."""
import os
import random
import shutil
import subprocess
import sys

from common import CACHE, REPO, VERIF, log, nl_lines, tool_error


def _perturb_unicode_data(lines, rng, is_profiles):
    out = []
    i = 0
    n_changes = 0
    while i < len(lines):
        f = lines[i].split(";")
        cp = int(f[0], 16)
        name = f[1]
        if name.endswith(", First>"):
            last = lines[i + 1].split(";")
            lo, hi = cp, int(last[0], 16)
            # (the surrogate ranges are left alone: the specification treats non-scalar values apart from the data)
            if hi - lo > 40 and not (0xD800 <= lo <= 0xDFFF) and rng.random() < 0.5:
                # split the range in two adjacent ranges, sometimes leaving a hole, sometimes changing the second half
                mid = rng.randrange(lo + 2, hi - 2)
                hole = rng.choice([0, 0, 1, 3])
                a1 = f[:]; a1[1] = "<Perturbed A, First>"
                a2 = last[:]; a2[0] = "%04X" % mid; a2[1] = "<Perturbed A, Last>"
                b1 = f[:]; b1[0] = "%04X" % (mid + 1 + hole); b1[1] = "<Perturbed B, First>"
                b2 = last[:]; b2[1] = "<Perturbed B, Last>"
                if rng.random() < 0.3 and is_profiles:
                    b1[4] = b2[4] = rng.choice(["R", "ON", "NSM", "AN"])
                out += [";".join(a1), ";".join(a2), ";".join(b1), ";".join(b2)]
                n_changes += 1
            else:
                out += [lines[i], lines[i + 1]]
            i += 2
            continue
        r = rng.random()
        if cp > 0x7F and cp not in PROTECTED and r < 0.004:
            n_changes += 1          # delete: the code point becomes unassigned
        elif cp > 0x7F and cp not in PROTECTED and r < 0.010:
            g = f[:]
            if is_profiles:
                g[4] = rng.choice(["L", "R", "AL", "AN", "EN", "NSM", "ON", "BN", "ES"])
                if rng.random() < 0.3 and not g[5].startswith("<"):
                    g[2] = rng.choice(["Zs", "Lo", g[2]])
            else:
                g[2] = rng.choice(["Lu", "Ll", "Lo", "Lt", "Mn", "Mc", "Nd", "No", "Sm", "So", "Po", "Zs", "Cc", "Pd"])
                if rng.random() < 0.3:
                    g[3] = rng.choice(["0", "9", "230"])
            out.append(";".join(g))
            n_changes += 1
        elif cp > 0xFF and r < 0.013 and i + 6 < len(lines):
            # fold a run of consecutive single entries with equal attributes into a First/Last range
            j = i
            while j + 1 < len(lines) and j - i < 12:
                g = lines[j + 1].split(";")
                if int(g[0], 16) != int(lines[j].split(";")[0], 16) + 1 or g[2:6] != f[2:6] or g[1].startswith("<") or int(g[0], 16) in PROTECTED or g[12] or g[13] or g[14]:
                    break
                j += 1
            if j > i + 1 and not f[12] and not f[13] and not f[14] and not f[5] and cp not in PROTECTED:
                a = f[:]; a[1] = "<Perturbed Run, First>"
                b = lines[j].split(";"); b[1] = "<Perturbed Run, Last>"
                out += [";".join(a), ";".join(b)]
                n_changes += 1
                i = j + 1
                continue
            out.append(lines[i])
        else:
            out.append(lines[i])
        i += 1
    return out, n_changes


# code points whose attributes are baked into the specification's constants or the probe templates
PROTECTED = set([0x61, 0x41, 0x6C, 0xB7, 0x200C, 0x200D, 0x628, 0x375, 0x5F3, 0x5F4, 0x30FB, 0x5D0, 0x661, 0x20, 0xA0, 0xFF21, 0x660, 0x6F0]
                + list(range(0x660, 0x66A)) + list(range(0x6F0, 0x6FA)))


def _perturb_prop_file(text, rng, values):
    """reorder the data lines, split some ranges, move a few code points to another value / drop them"""
    header, data = [], []
    for ln in text.split("\n"):
        body = ln.split("#", 1)[0].strip()
        if body and ";" in body:
            data.append(ln)
        else:
            header.append(ln)
    out = []
    for ln in data:
        body, _, comment = ln.partition("#")
        rng_s, val = [x.strip() for x in body.split(";")[:2]]
        lo, _, hi = rng_s.partition("..")
        lo = int(lo, 16); hi = int(hi, 16) if hi else lo
        r = rng.random()
        touch = not (set(range(lo, min(hi, lo + 64) + 1)) & PROTECTED)
        if touch and r < 0.01:
            continue                                        # dropped
        if touch and r < 0.03 and values:
            val = rng.choice(values)                        # moved to another value
        if hi - lo >= 2 and r > 0.9:
            mid = rng.randrange(lo, hi)
            out.append("%04X..%04X ; %s # perturbed" % (lo, mid, val) if mid > lo else "%04X ; %s # perturbed" % (lo, val))
            out.append("%04X..%04X ; %s # perturbed" % (mid + 1, hi, val) if hi > mid + 1 else "%04X ; %s # perturbed" % (hi, val))
        else:
            out.append(("%04X..%04X" % (lo, hi) if hi > lo else "%04X" % lo) + " ; %s # %s" % (val, comment.strip()[:40]))
    rng.shuffle(out)
    return "\n".join(["# perturbed copy"] + out + ["", "# EOF", ""])


def make_variation(seed, scratch):
    """scratch/repo = copy of the repository with varied resources; scratch/data = the same variation for the oracle"""
    rng = random.Random(seed)
    repo = os.path.join(scratch, "repo")
    data = os.path.join(scratch, "data")
    shutil.copytree(REPO, repo, ignore=shutil.ignore_patterns("target", ".git"))
    shutil.copytree(os.path.join(VERIF, "data"), data)
    changes = 0
    for rel_repo, rel_data, prof in (("precis-core/resources/ucd/UnicodeData.txt", "ucd-6.3.0/UnicodeData.txt", False),
                                     ("precis-profiles/resources/ucd/UnicodeData.txt", "ucd-16.0.0/UnicodeData.txt", True)):
        src = os.path.join(VERIF, "data", rel_data)          # start from the pinned copy, not from the repository's
        lines = [l for l in open(src, encoding="utf-8").read().split("\n") if l]
        new, n = _perturb_unicode_data(lines, rng, prof)
        changes += n
        text = "\n".join(new) + "\n"
        for dst in (os.path.join(repo, rel_repo), os.path.join(data, rel_data)):
            with open(dst, "w", encoding="utf-8") as f:
                f.write(text)
    for fn, values in (("Scripts.txt", ["Greek", "Hebrew", "Hiragana", "Katakana", "Han", "Latin", "Common"]),
                       ("extracted/DerivedJoiningType.txt", ["D", "L", "R", "T", "C"]),
                       ("HangulSyllableType.txt", ["L", "V", "T", "LV"]),
                       ("PropList.txt", None), ("DerivedCoreProperties.txt", None)):
        src = os.path.join(VERIF, "data", "ucd-6.3.0", fn)
        text = _perturb_prop_file(open(src, encoding="utf-8").read(), rng, values)
        for dst in (os.path.join(repo, "precis-core/resources/ucd", fn), os.path.join(data, "ucd-6.3.0", fn)):
            with open(dst, "w", encoding="utf-8") as f:
                f.write(text)
    return repo, data, changes


def run_variation(chk, seed):
    """build the real crates on a variation of the UCD data and judge every code point (L1); folds into chk"""
    scratch = os.path.join("/tmp", "pvh-variation-%d-%d" % (os.getpid(), seed))
    shutil.rmtree(scratch, ignore_errors=True)
    os.makedirs(scratch)
    try:
        repo, data, changes = make_variation(seed, scratch)
        env = dict(os.environ, PRECIS_REPO=repo, VERIF_DATA=data, VERIF_NO_EVIDENCE="1", VERIF_SEED=str(chk.seed))
        out_json = os.path.join(scratch, "l1.json")
        r = subprocess.run([sys.executable, os.path.join(VERIF, "bin", "check"), "__l1", out_json], env=env, stdout=subprocess.PIPE,
                           stderr=subprocess.STDOUT, text=True)
        if r.returncode != 0 or not os.path.exists(out_json):
            print(r.stdout[-3000:])
            tool_error("variation %d: the L1 sub-run failed (does the varied data still build?)" % seed)
        import json
        res = json.load(open(out_json))
        return res, changes
    finally:
        shutil.rmtree(scratch, ignore_errors=True)
        # the build output of the scratch repository lives in .cache/target-<tag>; remove it as well
        import hashlib
        tag = hashlib.sha256(os.path.realpath(os.path.join(scratch, "repo")).encode()).hexdigest()[:10]
        shutil.rmtree(os.path.join(CACHE, "target-" + tag), ignore_errors=True)
        shutil.rmtree(os.path.join(CACHE, "hw-" + tag), ignore_errors=True)
