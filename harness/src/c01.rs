//! C01 driver: exhaustive small-alphabet strings and random UTF-8 strings through EVERY public
//! operation, under catch_unwind.  Reports panics (and nothing else).

use crate::api::*;
use crate::oracle::Oracle;
use crate::record::Pools;
use crate::util::*;
use serde_json::{json, Value};
use std::sync::{Arc, Mutex};

const ALPHABET: [u32; 13] = [0x61, 0xe9, 0x65e5, 0x1f600, 0x20, 0xa0, 0x1680, 0x41, 0xff21, 0x301, 0x200d, 0x09, 0x2028];

fn positions(n: usize) -> Vec<usize> {
    let mut v: Vec<usize> = (0..n + 3).collect();
    v.extend([usize::MAX, usize::MAX - 1, 1usize << 63, (1usize << 32) + 1]);
    v
}

/// every public operation on one string; returns the number of calls made
fn all_ops(s: &str, panics: &Mutex<Vec<Value>>) -> u64 {
    let mut calls = 0u64;
    let mut note = |what: Value, r: &Value| {
        if r.get("panic").is_some() {
            let mut p = panics.lock().unwrap();
            if p.len() < 200 {
                p.push(json!({"op": what, "in": string_to_cps(s), "res": r}));
            }
        }
    };
    let args = [s.to_string()];
    for p in PROFILES.iter() {
        for op in ["prepare", "enforce"].iter().chain(RULES.iter()) {
            // borrowed and owned arguments take different paths through the Cow-returning functions
            for (kn, kind) in [("str", ArgKind::Str), ("string", ArgKind::Owned)] {
                let (r, _) = call_profile_full(p, "inst", op, kind, &args);
                note(json!([p, op, kn]), &r);
                calls += 1;
            }
        }
        let r = call_profile(p, "compare", &[s.to_string(), s.to_string()]);
        note(json!([p, "compare"]), &r);
        let r = call_profile(p, "compare", &[s.to_string(), "a".to_string()]);
        note(json!([p, "compare-a"]), &r);
        calls += 2;
    }
    for cls in ["Id", "Ff"] {
        let r = call_allows(cls, s);
        note(json!([cls, "allows"]), &r);
        calls += 1;
    }
    let n = s.chars().count();
    for rule in CTX_RULES.iter() {
        for off in positions(n) {
            let r = call_ctx(rule, s, off);
            note(json!([rule, off as u64]), &r);
            calls += 1;
        }
    }
    calls
}

pub fn main(args: &[String]) {
    silence_panics();
    let db = arg_value(args, "--oracle").unwrap_or_else(|| tool_error("--oracle"));
    let max_len = arg_u64(args, "--max-len", 4) as usize;
    let n_random = arg_u64(args, "--random", 20000);
    let seed = arg_u64(args, "--seed", 1);
    let threads = arg_u64(args, "--threads", 12) as usize;
    let o = Oracle::load(&db);
    let pools = Arc::new(Pools::new(&o));
    let panics = Arc::new(Mutex::new(Vec::new()));
    // exhaustive part: strings are numbered in base |ALPHABET| per length
    let k = ALPHABET.len() as u64;
    let mut total: u64 = 0;
    for l in 0..=max_len {
        total += k.pow(l as u32);
    }
    let mut hs = Vec::new();
    for t in 0..threads {
        let panics = panics.clone();
        let pools = pools.clone();
        hs.push(std::thread::spawn(move || {
            silence_panics();
            let mut calls = 0u64;
            let mut strings = 0u64;
            let mut idx = t as u64;
            while idx < total {
                // decode idx into (length, digits)
                let mut rem = idx;
                let mut l = 0usize;
                loop {
                    let c = k.pow(l as u32);
                    if rem < c {
                        break;
                    }
                    rem -= c;
                    l += 1;
                }
                let mut s = String::new();
                for _ in 0..l {
                    s.push(char::from_u32(ALPHABET[(rem % k) as usize]).unwrap());
                    rem /= k;
                }
                calls += all_ops(&s, &panics);
                strings += 1;
                idx += threads as u64;
            }
            // runs of consecutive code points (all digits of a script, a stretch of an alphabet, ...), alone and
            // followed by a few characters that make contextual rules hold
            let starts: [u32; 22] = [0x30, 0x41, 0x61, 0x660, 0x6f0, 0x966, 0x9e6, 0xe50, 0x5d0, 0x621, 0x3b1, 0x3041, 0x30a1, 0x30f5, 0x4e00,
                                     0xff10, 0xff21, 0x1d7ce, 0x10400, 0x2000, 0x200b, 0xb0];
            let tails: [&str; 6] = ["", "\u{30fb}\u{30ab}", "\u{65e5}\u{30fb}", "l\u{b7}l", "\u{915}\u{94d}\u{200d}", "\u{5d0}"];
            let mut ri = t;
            while ri < starts.len() * 12 * tails.len() {
                let st = starts[ri % starts.len()];
                let n = 5 + (ri / starts.len()) % 12;
                let tail = tails[(ri / (starts.len() * 12)) % tails.len()];
                let mut s: String = (0..n as u32).filter_map(|k| char::from_u32(st + k)).collect();
                s.push_str(tail);
                calls += all_ops(&s, &panics);
                let rev: String = tail.chars().chain(s[..s.len() - tail.len()].chars()).collect();
                calls += all_ops(&rev, &panics);
                strings += 2;
                ri += threads;
            }
            // random part
            let mut rng = Rng::new(seed * 1000 + t as u64);
            let mut i = t as u64;
            while i < n_random {
                let s = if rng.chance(1, 2) {
                    pools.string(&mut rng, 64)
                } else {
                    // arbitrary scalar values from all planes
                    let len = rng.below(65);
                    (0..len).filter_map(|_| char::from_u32(rng.below(0x110000) as u32)).collect()
                };
                calls += all_ops(&s, &panics);
                strings += 1;
                i += threads as u64;
            }
            (strings, calls)
        }));
    }
    let mut strings = 0u64;
    let mut calls = 0u64;
    for h in hs {
        let (s, c) = h.join().unwrap_or_else(|_| tool_error("c01 worker died"));
        strings += s;
        calls += c;
    }
    // classification at extreme values
    let mut cls_calls = 0u64;
    for cp in [0u32, 0xD7FF, 0xD800, 0xDFFF, 0xE000, 0x10FFFF, 0x110000, 0x7FFF_FFFF, 0x8000_0000, u32::MAX - 1, u32::MAX] {
        for cls in ["Id", "Ff"] {
            if class_value_g(cls, cp) == "PANIC" {
                panics.lock().unwrap().push(json!({"op": [cls, "get_value_from_codepoint"], "cp": cp}));
            }
            cls_calls += 1;
        }
        let _ = guarded(|| json!(registered_rule(cp)));
    }
    let p = panics.lock().unwrap();
    for x in p.iter() {
        println!("{}", json!({ "panic": x }));
    }
    println!("{}", json!({"summary": {"strings": strings, "exhaustive_strings": total, "calls": calls + cls_calls, "panics": p.len(), "alphabet": ALPHABET, "max_len": max_len}}));
}
