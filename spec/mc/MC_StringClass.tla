--------------------------- MODULE MC_StringClass ---------------------------
(***************************************************************************)
(* C02 for user-supplied string classes: an ARBITRARY assignment of the    *)
(* seven derived-property values to the free symbols (chosen in Init),     *)
(* next to fixed symbols whose registered rules can be true, false or      *)
(* undefined.  The default `allows` loop against its declarative           *)
(* formulation on every label; the error is caused by and reported for     *)
(* the first offending code point.                                         *)
(***************************************************************************)
EXTENDS StringClass, MiniUnicode, Json

CONSTANTS MaxLen, FreeSyms

W == MiniW
VARIABLES assign, input
vars == <<assign, input>>

Init == assign \in [FreeSyms -> PropValues] /\ input = <<>>
Build(c) == Len(input) < MaxLen /\ input' = Append(input, c) /\ UNCHANGED assign
Next == \E c \in SigmaIn : Build(c)
Spec == Init /\ [][Next]_vars

Prop(c) == IF c \in FreeSyms THEN assign[c] ELSE StdProp(W, "Ff", c)

Res == AllowsSpec(W, Prop, input)

LoopEqualsSpec == AllowsLoop(W, Prop, input, 0) = Res

\* accepted iff every code point is valid in its context
AcceptIff == (Res = OkUnit) <=>
  \A off \in 0..(Len(input) - 1) :
     LET c == input[off + 1] IN
       \/ Valid(Prop(c))
       \/ Contextual(Prop(c)) /\ RuleOf(c) # "" /\ Rule(W, RuleOf(c), input, off) = RTrue

\* the error carries the FIRST offending code point, its code-point position and its property
FirstOffender == IsErr(Res) =>
  LET bad == {off \in 0..(Len(input) - 1) : Verdict(W, Prop, input, off) # OkUnit}
      f == CHOOSE o \in bad : \A o2 \in bad : o <= o2 IN
    /\ Res = Verdict(W, Prop, input, f)
    /\ Res.err \in {"BadCodepoint", "MissingContextRule", "ContextRuleNotApplicable"} =>
         (Res.cp = input[f + 1] /\ Res.pos = f /\ Res.prop = Prop(input[f + 1]))
    /\ Res.err = "Undefined" => Contextual(Prop(input[f + 1]))
    /\ Res.err = "MissingContextRule" => (Contextual(Prop(input[f + 1])) /\ RuleOf(input[f + 1]) = "")

AssignSeq == LET S == FreeSyms IN [c \in S |-> assign[c]]
Emit == PrintT(<<"REPLAY", ToJson([k |-> "tclass", assign |-> {<<c, assign[c]>> : c \in FreeSyms}, s |-> input, res |-> Res])>>)
=============================================================================
