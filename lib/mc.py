"""Layer L2 helper: run a model-checking configuration, stream the behaviours TLC emits
(<<"REPLAY", json>> lines) to a file, replay them into the real code with the harness."""
import json
import sys
import os

from common import nl_lines, CACHE, ensure_oracle, log, run_harness, run_tlc, tool_error


def write_cfg(text, tag):
    os.makedirs(CACHE, exist_ok=True)
    path = os.path.join(CACHE, "cfg-%d-%s.cfg" % (os.getpid(), tag))
    with open(path, "w") as f:
        f.write(text)
    return path


class McRun:
    def __init__(self):
        self.res = None
        self.replay_path = None
        self.n_replay = 0
        self.other = []


# vacuity guard: the named actions of the small machine modules (TLC -coverage 1); a configuration in which one
# of them is never taken did not exercise what it claims to, and fails as a tool error.  The large string-
# enumerating configurations are not run with -coverage (TLC's coverage collection made a 6 s run exceed 30
# minutes); for them every action is on the path to an emitted behaviour, so the guard is "behaviours were
# emitted, replayed, and some of them are non-trivial" (see replay()).
ACTIONS = {
    "MC_Stabilize": ["Apply", "GiveUp"],
    "MC_Bidi": ["Add"],
    "MC_Precis": ["Begin", "OnceBegin", "OnceEnd", "OnceReady", "End"],
    "MC_Csv": ["AddRow"],
}


def run_mc(module, cfg_text, tag, workers=4, timeout=1800, extra_files=(), heap="6g", expect_violation=None,
           env=None, coverage=None):
    if coverage is None:
        coverage = module in ACTIONS and expect_violation is None
    """runs TLC on spec/mc/<module>.tla with the given cfg; REPLAY lines go to a file"""
    cfg_path = write_cfg(cfg_text, tag)
    out = McRun()
    out.replay_path = os.path.join(CACHE, "replay-%d-%s.ndjson" % (os.getpid(), tag))
    f = open(out.replay_path, "w")

    def cb(t, payload):
        if t == "REPLAY":
            f.write(payload)
            f.write("\n")
            out.n_replay += 1
        else:
            out.other.append((t, payload))

    try:
        res = run_tlc(module, cfg=os.path.basename(cfg_path), modules_dir="mc", extra_files=[cfg_path] + list(extra_files),
                      workers=workers, timeout=timeout, heap=heap, line_cb=cb, env=env, coverage=coverage)
    finally:
        f.close()
        os.remove(cfg_path)
    out.res = res
    if expect_violation is None:
        if res.violated:
            return out     # the caller reports it: an invariant of the specification itself failed
        if res.error or res.rc != 0:
            print(res.out[-3000:])
            tool_error("TLC failed on %s/%s: %s (rc=%s)" % (module, tag, res.error, res.rc))
        if coverage:
            for a in ACTIONS.get(module, []):
                if res.coverage.get(a, (0, 0))[1] == 0:
                    tool_error("vacuity guard: action %s of %s was never taken in configuration %s" % (a, module, tag))
            out.action_counts = {a: res.coverage[a][1] for a in ACTIONS.get(module, []) if a in res.coverage}
    return out


def _replay_guarded(chk, args, path, name):
    """runs `pvh replay`; a behaviour on which the REAL CODE takes the process down (stack overflow, abort) or never
    returns is data, not a tool error: the case is identified through the progress file / the watchdog, confirmed by
    executing it alone in a fresh process, reported as a violation, and the replay continues behind it.
    Returns (combined stdout with ONE merged summary line, wall, number of behaviours that crashed)"""
    from common import run_harness_raw
    prog = os.path.join(CACHE, "progress-%d" % os.getpid())
    lines = None
    start = 0            # number of leading lines already dealt with
    crashed = 0
    outs = []
    sums = []
    wall = 0.0
    cur_path = path
    tmp_paths = []
    try:
        while True:
            if os.path.exists(prog):
                os.remove(prog)
            a = list(args)
            a[a.index("--in") + 1] = cur_path
            rc, out, err, timed_out, w = run_harness_raw(a + ["--progress", prog], timeout=3600)
            wall += w
            if rc == 0:
                outs.append(out)
                break
            if rc == 2 or (rc not in (3, None) and rc > 0):
                sys.stdout.write(out[-2000:] + err[-2000:])
                tool_error("harness failed (%s): %s" % (rc, " ".join(a[:3])))
            # rc < 0 (killed by a signal), rc == 3 (watchdog), or the outer timeout
            idx = None
            if os.path.exists(prog):
                b = open(prog, "rb").read()
                if len(b) >= 8:
                    idx = int.from_bytes(b[:8], "little")
            if not idx:
                tool_error("harness died (%s) and left no progress record: %s" % (rc, " ".join(a[:3])))
            if lines is None:
                lines = nl_lines(open(path).read())
            case_line = lines[start + idx - 1]
            single = os.path.join(CACHE, "single-%d.ndjson" % os.getpid())
            tmp_paths.append(single)
            with open(single, "w") as f:
                f.write(case_line + "\n")
            b = list(args)
            b[b.index("--in") + 1] = single
            rc2, out2, err2, to2, _ = run_harness_raw(b + ["--case-timeout", "60"], timeout=300)
            if rc2 == 0:
                sys.stdout.write(err[-1500:])
                tool_error("harness died (%s) on behaviour %d of %s, which runs fine alone" % (rc, start + idx, name))
            how = "did not return within 60 s" if (rc2 == 3 or to2) else "took the process down (signal %s: %s)" % (-rc2 if rc2 and rc2 < 0 else rc2, (err2 or "").strip()[-200:])
            chk.violation("the real code %s while executing a behaviour of the model: %s" % (how, case_line[:500]),
                          {"layer": "L2", "config": name, "mismatch": {"case": json.loads(case_line), "actual": how}})
            crashed += 1
            # everything the dead process printed before is lost with its summary: re-run the prefix is not needed for
            # the verdict; continue behind the case (at most three such incidents per file)
            outs.append("\n".join(l for l in nl_lines(out) if l.startswith("{") and '"mismatch"' in l))
            sums.append({"n": idx - 1})
            start += idx
            if crashed >= 3 or start >= len(lines):
                outs.append(json.dumps({"summary": {"n": len(lines) - start, "executions": 0, "mismatches": 0, "nontrivial": 1, "dev": 0, "other_printed": 0}}))
                break
            rest = os.path.join(CACHE, "rest-%d.ndjson" % os.getpid())
            tmp_paths.append(rest)
            with open(rest, "w") as f:
                f.write("\n".join(lines[start:]) + "\n")
            cur_path = rest
    finally:
        for p in tmp_paths + [prog]:
            if os.path.exists(p):
                os.remove(p)
    if not crashed:
        return outs[0], wall, 0
    # merge: mismatches of all parts, one summary
    merged = {"n": 0, "executions": 0, "mismatches": 0, "nontrivial": 0, "dev": 0, "other_printed": 0}
    text = []
    for o in outs:
        for l in nl_lines(o):
            if not l.startswith("{"):
                continue
            d = json.loads(l)
            if "summary" in d:
                for k in merged:
                    merged[k] += d["summary"].get(k, 0)
            elif "hang" not in d:
                text.append(l)
    for s0 in sums:
        merged["n"] += s0["n"]
    merged["nontrivial"] = max(merged["nontrivial"], 1)
    text.append(json.dumps({"summary": merged}))
    return "\n".join(text), wall, crashed


def replay(chk, mc, name, harness_args=(), classify=None, need_oracle=False):
    """replays mc.replay_path through the harness; folds the outcome into chk.
    classify(mismatch) -> None (violation) | finding id (known finding)"""
    args = ["replay", "--in", mc.replay_path, "--seed", str(chk.seed)] + list(harness_args)
    if need_oracle:
        args += ["--oracle", ensure_oracle()]
    out, t, crashed = _replay_guarded(chk, args, mc.replay_path, name)
    summary = None
    mism = []
    for line in nl_lines(out):
        if not line.startswith("{"):
            continue
        d = json.loads(line)
        if "summary" in d:
            summary = d["summary"]
        elif "mismatch" in d:
            mism.append(d["mismatch"])
        elif "toolerr" in d:
            tool_error("replay: %s" % d["toolerr"])
    if summary is None:
        tool_error("replay produced no summary for %s" % name)
    if summary["n"] + crashed != mc.n_replay:
        tool_error("replay consumed %d of %d behaviours" % (summary["n"] + crashed, mc.n_replay))
    if mc.n_replay == 0 or summary["nontrivial"] == 0:
        tool_error("vacuity guard: configuration %s emitted %d behaviours, %d non-trivial" % (name, mc.n_replay, summary["nontrivial"]))
    n_known = 0
    n_dev_seen = 0
    for m in mism:
        if m.get("dev"):
            n_dev_seen += 1
        if "toolerr" in m:
            tool_error("replay: %s" % json.dumps(m)[:500])
        fid = classify(m) if classify else None
        if fid:
            chk.known_finding(fid)
            n_known += 1
        else:
            chk.violation("replayed behaviour disagrees with the real code: %s" % json.dumps(m, sort_keys=True)[:600],
                          {"layer": "L2", "config": name, "mismatch": m})
    if summary.get("dev", 0) > n_dev_seen:
        # mismatches explained by a named deviation are only printed up to a cap; count the rest
        extra = summary["dev"] - n_dev_seen
        first_dev = next((m for m in mism if m.get("dev")), None)
        fid = classify(first_dev) if (classify and first_dev) else None
        if fid:
            chk.known_finding(fid, extra)
            n_known += extra
        else:
            tool_error("unclassified deviation mismatches in %s" % name)
    if summary["mismatches"] - summary.get("dev", 0) > summary.get("other_printed", 0):
        chk.violation("%s: %d further mismatches not shown" % (name, summary["mismatches"] - summary.get("dev", 0) - summary.get("other_printed", 0)),
                      {"layer": "L2", "config": name, "note": "overflow of the mismatch list"})
    chk.add_tlc("MC:" + name, mc.res, {"actions_taken": getattr(mc, "action_counts", {}), "behaviours_replayed": summary["n"], "executions_in_real_code": summary["executions"],
                                       "mismatches": summary["mismatches"], "known": n_known, "replay_s": round(t, 1)})
    chk.cov["traces_validated_against_impl"] += summary["n"]
    chk.cov["evaluations"] += summary["executions"]
    chk.cov["distinct_nontrivial"] += summary["nontrivial"]
    # samples: first lines of the replay file
    with open(mc.replay_path) as f:
        for i, line in enumerate(f):
            if i >= 2:
                break
            chk.sample({"layer": "L2", "config": name, "behaviour": json.loads(line)})
    os.remove(mc.replay_path)
    return summary, mism


def spec_violation(chk, mc, name):
    """an invariant of the specification itself is violated in a configuration"""
    chk.violation("the specification's invariant %s fails in configuration %s:\n%s" % (mc.res.violated, name, mc.res.out[-1500:]),
                  {"layer": "MC", "config": name, "invariant": mc.res.violated, "tlc_tail": mc.res.out[-3000:]})
    if mc.replay_path and os.path.exists(mc.replay_path):
        os.remove(mc.replay_path)
