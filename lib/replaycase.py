"""bin/check --replay <path>: re-execute the single case of a VIOLATION replay file through the layer
that produced it.  Exit 1 (and a VIOLATION line) if the disagreement is still there, 0 if not."""
import json
import os

from common import nl_lines, CACHE, ensure_oracle, log, run_harness, run_tlc, tool_error


def replay(path):
    doc = json.load(open(path))
    prop = doc["property"]
    case = doc["case"]
    layer = case.get("layer")
    print("replaying %s (%s): %s" % (path, layer, doc.get("summary", "")[:300]))
    os.makedirs(CACHE, exist_ok=True)
    tmp = os.path.join(CACHE, "replaycase-%d.ndjson" % os.getpid())
    try:
        if layer == "L2" and "mismatch" in case and "case" in case["mismatch"]:
            m = case["mismatch"]
            with open(tmp, "w") as f:
                f.write(json.dumps(m["case"]) + "\n")
            os.environ["PVH_SCRATCH"] = os.path.join(CACHE, "pvh-replay-%d" % os.getpid())
            out, _ = run_harness(["replay", "--in", tmp, "--forms", "--oracle", ensure_oracle(), "--draws", "3"])
            still = [json.loads(l)["mismatch"] for l in nl_lines(out) if l.startswith("{") and "mismatch" in json.loads(l)]
            import shutil
            shutil.rmtree(os.environ["PVH_SCRATCH"], ignore_errors=True)
            if still:
                print("still disagrees: %s" % json.dumps(still[0], sort_keys=True)[:800])
                print("VIOLATION property=%s replay=%s" % (prop, path))
                return 1
            print("the real code now agrees with the model on this behaviour")
            return 0
        if layer in ("L3", "L3-session") and "event" in case:
            with open(tmp, "w") as f:
                f.write(json.dumps(case["event"]) + "\n")
            trace = tmp + ".trace"
            run_harness(["reexec", "--oracle", ensure_oracle(), "--in", tmp, "--out", trace])
            res = run_tlc("Trace_Api", modules_dir="trace", env={"TRACE": trace}, workers=1, timeout=300)
            ev = json.loads(nl_lines(open(trace).read())[0])
            os.remove(trace)
            bad = None
            for tag, payload in res.printed:
                if tag == "BAD":
                    bad = json.loads(payload)
            if bad is None:
                tool_error("TLC did not consume the event")
            print("result now: %s" % json.dumps(ev["res"])[:400])
            if bad and not bad[0]["j"].startswith("known:") or "panic" in ev["res"]:
                print("still not explained by the specification (%s)" % (bad[0]["j"] if bad else "panic"))
                print("VIOLATION property=%s replay=%s" % (prop, path))
                return 1
            print("the event is explained by the specification%s" % (" (known finding)" if bad else ""))
            return 0
        if layer == "L1" and "event" in case:
            import l1
            r = l1._build(False, 1)
            lo, hi = case["event"]["lo"], case["event"]["hi"]
            hits = [b for b in r["bad"] if b["event"]["lo"] <= hi and b["event"]["hi"] >= lo]
            if hits:
                print("still disagrees on U+%04X..U+%04X: %s" % (hits[0]["event"]["lo"], hits[0]["event"]["hi"], hits[0]["fields"]))
                print("VIOLATION property=%s replay=%s" % (prop, path))
                return 1
            print("no disagreement on U+%04X..U+%04X any more" % (lo, hi))
            return 0
        print("this replay file (layer %s) is re-checked by running the property's check: bin/check %s quick" % (layer, prop))
        import subprocess
        return subprocess.call([os.path.join(os.path.dirname(os.path.dirname(os.path.abspath(__file__))), "bin", "check"), prop, "quick"])
    finally:
        if os.path.exists(tmp):
            os.remove(tmp)
