//! C15 replay: a model input (UnicodeData-like lines) is rendered as a real UnicodeData.txt,
//! the REAL precis_tools generators are run on it through RustCodeGen::generate_code, the
//! emitted Rust source is parsed entry by entry into precis_core::Codepoints values, and the
//! tables are searched with the library's own binary_search_by(partial_cmp().unwrap())
//! expression.  The resulting denotation is compared with the model's.

use crate::replay::Tally;
use crate::util::*;
use precis_core::Codepoints;
use precis_tools::{BidiClassGen, CodeGen, GeneralCategoryGen, RustCodeGen, UcdCodeGen, UcdFileGen, UcdTableGen, UnassignedTableGen, UnicodeGen, ViramaTableGen, WidthMappingTableGen};
use serde_json::{json, Value};
use std::io::Write;
use std::path::{Path, PathBuf};

pub const GEN_BASES: [u32; 5] = [0, 0x0640, 0xD7FD, 0xFFFA, 0x10FF00];

/// the 23 values of Bidi_Class (UAX #44).  The model has three attribute values; which three real class names stand for
/// them is an injective renaming that rotates with the behaviour and the base, so that every class name - and every
/// pair of neighbours in this list - passes through the real generator and must come back as itself.
pub const BIDI_CLASSES: [&str; 23] = ["L", "R", "AL", "EN", "ES", "ET", "AN", "CS", "NSM", "BN", "B", "S", "WS", "ON", "LRE", "LRO", "RLE", "RLO", "PDF", "PDI", "LRI", "RLI", "FSI"];
fn bidi_rename(model: &str, window: usize) -> &'static str {
    let k = match model {
        "L" => 0,
        "NSM" => 1,
        "R" => 2,
        _ => return "-",
    };
    BIDI_CLASSES[(window + k) % 23]
}

fn render_line(cp: u32, kind: &str, v: u64, base: u32, model_cp: u32, window: usize) -> String {
    let name = match kind {
        "first" => "<Model Block, First>".to_string(),
        "last" => "<Model Block, Last>".to_string(),
        _ => format!("MODEL CHARACTER {:04X}", cp),
    };
    let (gc, ccc, bidi, dec) = match v {
        1 => ("Lu", 0, "L", String::new()),
        2 => ("Mn", 9, "NSM", String::new()),
        _ => ("So", 0, "R", format!("<wide> {:04X}", base + 32 + model_cp / 2)),
    };
    format!("{:04X};{};{};{};{};{};;;;N;;;;;", cp, name, gc, ccc, bidi_rename(bidi, window), dec)
}

pub struct Tables {
    pub gc: Vec<Codepoints>,
    pub gc2: Vec<Codepoints>,
    pub vir: Vec<Codepoints>,
    pub un: Vec<Codepoints>,
    pub bidi: Vec<(Codepoints, String)>,
    pub wm: Vec<(Codepoints, u32)>,
}

fn parse_hex(s: &str) -> u32 {
    u32::from_str_radix(s.trim().trim_start_matches("0x"), 16).unwrap_or_else(|_| tool_error(&format!("hex {}", s)))
}

fn parse_num(s: &str) -> Option<u32> {
    let t = s.trim().trim_end_matches("u32").trim_end_matches('_');
    if let Some(h) = t.strip_prefix("0x").or_else(|| t.strip_prefix("0X")) {
        u32::from_str_radix(&h.replace('_', ""), 16).ok()
    } else {
        t.replace('_', "").parse().ok()
    }
}

/// tolerant of other spellings of the same entry: `Codepoints::Range(0x41..=0x5a)`, decimal numbers, other paths to
/// RangeInclusive::new
fn parse_entry_alt(s: &str) -> Option<(Codepoints, usize)> {
    let i = s.find("Codepoints::Range(")?;
    let rest = &s[i + "Codepoints::Range(".len()..];
    if let Some(j) = rest.find("..=") {
        let a = parse_num(&rest[..j])?;
        let tail = &rest[j + 3..];
        let k = tail.find(')')?;
        let b = parse_num(&tail[..k])?;
        return Some((Codepoints::Range(std::ops::RangeInclusive::new(a, b)), i + "Codepoints::Range(".len() + j + 3 + k + 1));
    }
    if let Some(j) = rest.find("new(") {
        let inner = &rest[j + 4..];
        let k = inner.find(')')?;
        let mut parts = inner[..k].split(',');
        let a = parse_num(parts.next()?)?;
        let b = parse_num(parts.next()?)?;
        return Some((Codepoints::Range(std::ops::RangeInclusive::new(a, b)), i + "Codepoints::Range(".len() + j + 4 + k + 2));
    }
    None
}

fn parse_entry(s: &str) -> Option<(Codepoints, usize)> {
    if let Some(i) = s.find("Codepoints::Single(") {
        let rest = &s[i + "Codepoints::Single(".len()..];
        if let Some(j) = rest.find(')') {
            if let Some(v) = parse_num(&rest[..j]) {
                return Some((Codepoints::Single(v), i + "Codepoints::Single(".len() + j + 1));
            }
        }
    }
    if s.contains("Codepoints::Range(") && !s.contains("Codepoints::Range(std::ops::RangeInclusive::new(0x") {
        return parse_entry_alt(s);
    }
    parse_entry_strict(s)
}

fn parse_entry_strict(s: &str) -> Option<(Codepoints, usize)> {
    // returns the entry and the index just after it
    if let Some(i) = s.find("Codepoints::Single(") {
        let rest = &s[i + "Codepoints::Single(".len()..];
        let j = rest.find(')')?;
        return Some((Codepoints::Single(parse_hex(&rest[..j])), i + "Codepoints::Single(".len() + j + 1));
    }
    if let Some(i) = s.find("Codepoints::Range(std::ops::RangeInclusive::new(") {
        let pre = "Codepoints::Range(std::ops::RangeInclusive::new(";
        let rest = &s[i + pre.len()..];
        let j = rest.find(')')?;
        let mut parts = rest[..j].split(',');
        let a = parse_hex(parts.next()?);
        let b = parse_hex(parts.next()?);
        return Some((Codepoints::Range(std::ops::RangeInclusive::new(a, b)), i + pre.len() + j + 2));
    }
    None
}

/// declared array length of `static NAME: [T; N] = [`
fn declared_len(line: &str) -> Option<usize> {
    let a = line.rfind(';')?;
    let b = line[a..].find(']')? + a;
    line[a + 1..b].trim().parse().ok()
}

pub fn parse_tables(src: &str) -> Tables {
    let mut t = Tables { gc: vec![], gc2: vec![], vir: vec![], un: vec![], bidi: vec![], wm: vec![] };
    let mut cur = String::new();
    let mut declared: Vec<(String, usize)> = Vec::new();
    for line in src.lines() {
        let lt = line.trim_start().trim_start_matches("pub ").trim_start_matches("(crate) ");
        if lt.starts_with("static ") || lt.starts_with("const ") {
            cur = lt.split(':').next().unwrap().trim_start_matches("static ").trim_start_matches("const ").trim().to_string();
            if let Some(n) = declared_len(lt) {
                declared.push((cur.clone(), n));
            }
            continue;
        }
        if line.starts_with("];") {
            cur.clear();
            continue;
        }
        if cur.is_empty() {
            continue;
        }
        if let Some((e, after)) = parse_entry(line) {
            match cur.as_str() {
                "T_GC" => t.gc.push(e),
                "T_GC2" => t.gc2.push(e),
                "T_VIR" => t.vir.push(e),
                "T_UN" => t.un.push(e),
                "T_BIDI" => {
                    let rest = &line[after..];
                    let cls = rest.split("BidiClass::").nth(1).map(|x| x.trim_end_matches(|c| c == ')' || c == ',').to_string()).unwrap_or_default();
                    t.bidi.push((e, cls));
                }
                "T_WM" => {
                    let rest = &line[after..];
                    let tgt = rest.trim_start_matches(|c| c == ',' || c == ' ').trim_end_matches(|c| c == ')' || c == ',');
                    t.wm.push((e, parse_hex(tgt)));
                }
                _ => {}
            }
        }
    }
    // if the emitted source could not be interpreted completely this is a defect of the harness' reader, not of the generators
    for (name, n) in declared {
        let got = match name.as_str() {
            "T_GC" => t.gc.len(),
            "T_GC2" => t.gc2.len(),
            "T_VIR" => t.vir.len(),
            "T_UN" => t.un.len(),
            "T_BIDI" => t.bidi.len(),
            "T_WM" => t.wm.len(),
            _ => n,
        };
        if got != n {
            tool_error(&format!("cannot interpret the emitted table {}: {} entries declared, {} read", name, n, got));
        }
    }
    t
}

fn in_table(cp: u32, table: &[Codepoints]) -> bool {
    table.binary_search_by(|cps| cps.partial_cmp(&cp).unwrap()).is_ok()
}

/// The emitted file is a function of the UCD input only: the generation is run twice, once over an output file that
/// already exists and is longer than anything the generators write, once with no output file present.  Different
/// bytes are reported as an `Err` starting with "STALE".
pub fn twice<F: Fn() -> Result<String, String>>(out: &Path, f: F) -> Result<String, String> {
    std::fs::write(out, "/* content of an earlier build */\n".repeat(4096)).map_err(|e| e.to_string())?;
    let over = f();
    std::fs::remove_file(out).ok();
    let fresh = f();
    match (&over, &fresh) {
        (Ok(a), Ok(b)) if a != b => Err(format!(
            "STALE: the emitted file depends on the previous content of the output file ({} bytes over an existing file, {} bytes into a new one)",
            a.len(), b.len())),
        (Ok(_), Err(e)) | (Err(e), Ok(_)) => Err(format!("STALE: generation succeeds or fails depending on the previous output file: {}", e)),
        _ => fresh,
    }
}

thread_local! {
    /// the checks that do not depend on the position of the model window in the code space (generation over an existing
    /// output, second emission of a parsed aggregator) are made for the first base of every model input only
    static FULL: std::cell::Cell<bool> = std::cell::Cell::new(true);
}

pub fn run_generators(dir: &Path) -> Result<String, String> {
    let out = dir.join("tables.rs");
    if FULL.with(|f| f.get()) {
        twice(&out, || run_generators_once(dir, &out))
    } else {
        std::fs::remove_file(&out).ok();
        run_generators_once(dir, &out)
    }
}

fn run_generators_once(dir: &Path, out: &Path) -> Result<String, String> {
    let mut gen = RustCodeGen::new(out).map_err(|e| e.to_string())?;
    let mut ucd_gen = UcdFileGen::new(dir);
    let mut gc_gen = GeneralCategoryGen::new();
    gc_gen.add(Box::new(UcdTableGen::new("Lu", "T_GC")));
    gc_gen.add(Box::new(ViramaTableGen::new("T_VIR")));
    gc_gen.add(Box::new(UnassignedTableGen::new("T_UN")));
    gc_gen.add(Box::new(BidiClassGen::new("T_BIDI")));
    gc_gen.add(Box::new(WidthMappingTableGen::new("T_WM")));
    // the same category collected a second time under another table name (e.g. Zs for a category set and for the
    // profiles' space table): both tables must come out alike
    gc_gen.add(Box::new(UcdTableGen::new("Lu", "T_GC2")));
    ucd_gen.add(Box::new(gc_gen));
    gen.add(Box::new(ucd_gen));
    gen.generate_code().map_err(|e| e.to_string())?;
    drop(gen);
    let text = std::fs::read_to_string(out).map_err(|e| e.to_string())?;
    if !FULL.with(|f| f.get()) {
        return Ok(text);
    }
    // a parsed aggregator emits the same code every time it is asked to (two copies for two crates)
    let mut agg = GeneralCategoryGen::new();
    agg.add(Box::new(UcdTableGen::new("Lu", "T_GC")));
    agg.add(Box::new(ViramaTableGen::new("T_VIR")));
    agg.add(Box::new(UnassignedTableGen::new("T_UN")));
    agg.add(Box::new(BidiClassGen::new("T_BIDI")));
    agg.add(Box::new(WidthMappingTableGen::new("T_WM")));
    agg.parse_unicode_file(dir).map_err(|e| e.to_string())?;
    let mut copies: Vec<String> = Vec::new();
    for k in 0..2 {
        let path = dir.join(format!("copy{}.rs", k));
        let mut f = std::fs::File::create(&path).map_err(|e| e.to_string())?;
        agg.generate_code(&mut f).map_err(|e| e.to_string())?;
        drop(f);
        copies.push(std::fs::read_to_string(&path).map_err(|e| e.to_string())?);
        std::fs::remove_file(&path).ok();
    }
    if copies[0] != copies[1] {
        return Err(format!("STALE: the second emission of a parsed aggregator differs from the first ({} vs {} bytes)", copies[0].len(), copies[1].len()));
    }
    Ok(text)
}

fn scratch() -> PathBuf {
    let d = std::env::var("PVH_SCRATCH").unwrap_or_else(|_| tool_error("PVH_SCRATCH not set"));
    let p = PathBuf::from(d);
    std::fs::create_dir_all(&p).ok();
    p
}

fn expected_at<'a>(m: &'a Value, cp: u32) -> &'a Value {
    // TLA+ functions over 0..M-1 are rendered as JSON objects keyed by the number (or arrays if 1-based)
    &m[cp.to_string()]
}

pub fn replay_gen(doc: &Value, t: &mut Tally) {
    let m = doc["m"].as_u64().unwrap() as u32;
    let dir = scratch();
    // the renaming of the bidi values moves with the behaviour; a case replayed alone carries the position it had
    let w0 = doc.get("window0").and_then(|v| v.as_u64()).unwrap_or(t.n) as usize;
    let mut case = doc.clone();
    case["window0"] = json!(w0);
    for (bi, base) in GEN_BASES.iter().enumerate() {
        FULL.with(|f| f.set(bi == 0));
        let window = (w0 + bi * 7) % 23;
        let mut text = String::new();
        for l in doc["lines"].as_array().unwrap() {
            let mcp = l["cp"].as_u64().unwrap() as u32;
            text.push_str(&render_line(base + mcp, l["kind"].as_str().unwrap(), l["v"].as_u64().unwrap(), *base, mcp, window));
            text.push('\n');
        }
        let mut f = std::fs::File::create(dir.join("UnicodeData.txt")).unwrap();
        f.write_all(text.as_bytes()).unwrap();
        drop(f);
        t.executions += 1;
        let res = std::panic::catch_unwind(|| run_generators(&dir));
        let src = match res {
            Err(_) => {
                t.mismatch(json!({"k": "gen", "case": case, "base": base, "lines": doc["lines"], "actual": "panic in the generators"}));
                continue;
            }
            Ok(Err(e)) => {
                // a First line at the very end of the file: silently ignoring it (the code today) and rejecting the
                // file are both acceptable; nothing in the property decides
                if doc["dangling"].as_bool().unwrap_or(false) && !e.starts_with("STALE") {
                    continue;
                }
                t.mismatch(json!({"k": "gen", "case": case, "base": base, "lines": doc["lines"], "actual": format!("generator error: {}", e)}));
                continue;
            }
            Ok(Ok(s)) => s,
        };
        let tb = parse_tables(&src);
        let mut diffs: Vec<Value> = Vec::new();
        if tb.gc != tb.gc2 {
            diffs.push(json!({"table": "the same category registered under two table names", "first": tb.gc.len(), "second": tb.gc2.len()}));
        }
        for mcp in 0..m {
            let cp = base + mcp;
            let r = std::panic::catch_unwind(|| {
                let gc = in_table(cp, &tb.gc);
                let vir = in_table(cp, &tb.vir);
                let un = in_table(cp, &tb.un);
                let bidi = match tb.bidi.binary_search_by(|(cps, _)| cps.partial_cmp(&cp).unwrap()) {
                    Ok(i) => tb.bidi[i].1.clone(),
                    Err(_) => "-".to_string(),
                };
                let wm: i64 = match tb.wm.binary_search_by(|cps| cps.0.partial_cmp(&cp).unwrap()) {
                    Ok(i) => tb.wm[i].1 as i64 - *base as i64,
                    Err(_) => -1,
                };
                // no code point covered by two entries
                let twice = |tab: &Vec<Codepoints>| tab.iter().filter(|e| **e == cp).count() > 1;
                let dup = twice(&tb.gc) || twice(&tb.vir) || twice(&tb.un) || tb.bidi.iter().filter(|e| e.0 == cp).count() > 1 || tb.wm.iter().filter(|e| e.0 == cp).count() > 1;
                (gc, vir, un, bidi, wm, dup)
            });
            let (gc, vir, un, bidi, wm, dup) = match r {
                Ok(x) => x,
                Err(_) => {
                    diffs.push(json!({"cp": mcp, "table": "search panicked"}));
                    continue;
                }
            };
            if json!(gc) != *expected_at(&doc["gc"], mcp) {
                diffs.push(json!({"cp": mcp, "table": "general category set", "actual": gc}));
            }
            if json!(vir) != *expected_at(&doc["vir"], mcp) {
                diffs.push(json!({"cp": mcp, "table": "virama", "actual": vir}));
            }
            let exp_un = expected_at(&doc["un"], mcp).as_str().unwrap_or("either");
            if exp_un != "either" && (exp_un == "yes") != un {
                diffs.push(json!({"cp": mcp, "table": "unassigned", "actual": un}));
            }
            let exp_bidi = bidi_rename(expected_at(&doc["bidi"], mcp).as_str().unwrap_or("?"), window);
            if bidi != exp_bidi {
                diffs.push(json!({"cp": mcp, "table": "bidi", "expected": exp_bidi, "actual": bidi}));
            }
            let exp_wm = expected_at(&doc["wm"], mcp).as_i64().unwrap_or(-2);
            if wm != exp_wm {
                diffs.push(json!({"cp": mcp, "table": "width", "actual": wm}));
            }
            if dup {
                diffs.push(json!({"cp": mcp, "table": "covered twice"}));
            }
        }
        if !diffs.is_empty() {
            t.mismatch(json!({"k": "gen", "case": case, "base": base, "lines": doc["lines"], "diffs": diffs}));
        }
    }
    if doc["lines"].as_array().unwrap().iter().any(|l| l["kind"] == "first") {
        t.nontrivial += 1;
    }
}


/// malformed First/Last structure: the real folding must reject with the error the model names
pub fn replay_generr(doc: &Value, t: &mut Tally) {
    FULL.with(|f| f.set(true));
    let dir = scratch();
    let want = match doc["err"].as_str().unwrap_or("") {
        "expected end of range" => "Expected end range",
        "end of range without start" => "Found end range without starting",
        "start greater than end" => "is minor than",
        other => tool_error(&format!("unknown model error {}", other)),
    };
    for base in [0u32, 0xFFFA] {
        let mut text = String::new();
        for l in doc["lines"].as_array().unwrap() {
            let mcp = l["cp"].as_u64().unwrap() as u32;
            text.push_str(&render_line(base + mcp, l["kind"].as_str().unwrap(), l["v"].as_u64().unwrap(), base, mcp, 0));
            text.push('\n');
        }
        let mut f = std::fs::File::create(dir.join("UnicodeData.txt")).unwrap();
        f.write_all(text.as_bytes()).unwrap();
        drop(f);
        t.executions += 1;
        let res = std::panic::catch_unwind(|| run_generators(&dir));
        // the wording of the error is not specified: any error is a rejection; accepting or panicking is not
        let got = match res {
            Err(_) => "panic".to_string(),
            Ok(Ok(_)) => "accepted".to_string(),
            Ok(Err(e)) if e.starts_with("STALE") => e,
            Ok(Err(e)) => format!("error: {}", e),
        };
        if !got.starts_with("error: ") {
            t.mismatch(json!({"k": "generr", "base": base, "lines": doc["lines"], "expected": format!("an error (the code today says: {})", want), "actual": got}));
        }
    }
    t.nontrivial += 1;
}

/// property-file generators (UnicodeGen<T> + UcdTableGen): lines in any order.  The same model file is written in the
/// five file formats the build scripts read (Scripts, DerivedJoiningType, HangulSyllableType, PropList,
/// DerivedCoreProperties), the model's two values being mapped to two values of the respective property
fn run_prop_kind(kind: usize, dir: &Path, out: &Path) -> Result<String, String> {
    let mut gen = RustCodeGen::new(out).map_err(|e| e.to_string())?;
    let mut ucd_gen = UcdFileGen::new(dir);
    macro_rules! typed {
        ($t:ty, $a:expr, $b:expr) => {{
            let mut sg: UnicodeGen<$t> = UnicodeGen::new();
            sg.add(Box::new(UcdTableGen::new($a, "T_GC")));
            sg.add(Box::new(UcdTableGen::new($b, "T_VIR")));
            sg.add(Box::new(UcdTableGen::new($a, "T_GC2")));
            ucd_gen.add(Box::new(sg));
            // a parsed aggregator emits the same code every time it is asked to
            if FULL.with(|f| f.get()) {
            let mut agg: UnicodeGen<$t> = UnicodeGen::new();
            agg.add(Box::new(UcdTableGen::new($a, "T_GC")));
            agg.add(Box::new(UcdTableGen::new($b, "T_VIR")));
            agg.parse_unicode_file(dir).map_err(|e| e.to_string())?;
            let mut copies: Vec<String> = Vec::new();
            for k in 0..2 {
                let path = dir.join(format!("copy{}.rs", k));
                let mut f = std::fs::File::create(&path).map_err(|e| e.to_string())?;
                agg.generate_code(&mut f).map_err(|e| e.to_string())?;
                drop(f);
                copies.push(std::fs::read_to_string(&path).map_err(|e| e.to_string())?);
                std::fs::remove_file(&path).ok();
            }
            if copies[0] != copies[1] {
                return Err(format!("STALE: the second emission of a parsed aggregator differs from the first ({} vs {} bytes)", copies[0].len(), copies[1].len()));
            }
            }
        }};
    }
    match kind {
        0 => typed!(ucd_parse::Script, "Greek", "Hebrew"),
        1 => typed!(precis_tools::DerivedJoiningType, "D", "T"),
        2 => typed!(precis_tools::HangulSyllableType, "L", "V"),
        3 => typed!(ucd_parse::Property, "Join_Control", "Noncharacter_Code_Point"),
        _ => typed!(ucd_parse::CoreProperty, "Default_Ignorable_Code_Point", "Alphabetic"),
    }
    gen.add(Box::new(ucd_gen));
    gen.generate_code().map_err(|e| e.to_string())?;
    drop(gen);
    std::fs::read_to_string(out).map_err(|e| e.to_string())
}

const PROP_KINDS: [(&str, &str, &str, &str); 5] = [
    ("Scripts.txt", "Scripts", "Greek", "Hebrew"),
    ("extracted/DerivedJoiningType.txt", "DerivedJoiningType", "D", "T"),
    ("HangulSyllableType.txt", "HangulSyllableType", "L", "V"),
    ("PropList.txt", "PropList", "Join_Control", "Noncharacter_Code_Point"),
    ("DerivedCoreProperties.txt", "DerivedCoreProperties", "Default_Ignorable_Code_Point", "Alphabetic"),
];

pub fn replay_prop(doc: &Value, t: &mut Tally) {
    let dir = scratch();
    let m = doc["m"].as_u64().unwrap() as u32;
    std::fs::create_dir_all(dir.join("extracted")).ok();
    for (bi, base) in [0x0370u32, 0xD7FD, 0xFFFC, 0x10FF00].iter().enumerate() {
      // every base through the Scripts format, the other four formats on one base each (rotating)
      for kind in 0..PROP_KINDS.len() {
        if kind != 0 && (kind + bi) % 4 != 0 {
            continue;
        }
        let (file, label, va, vb) = PROP_KINDS[kind];
        let mut text = format!("# {}-like model file\n\n", label);
        for l in doc["lines"].as_array().unwrap() {
            let lo = base + l["lo"].as_u64().unwrap() as u32;
            let hi = base + l["hi"].as_u64().unwrap() as u32;
            let v = match l["v"].as_str().unwrap() {
                "Greek" => va,
                "Hebrew" => vb,
                other => other,
            };
            if lo == hi {
                text.push_str(&format!("{:04X}          ; {} # Lo       MODEL\n", lo, v));
            } else {
                text.push_str(&format!("{:04X}..{:04X}    ; {} # Lo  [{}] MODEL..MODEL\n", lo, hi, v, hi - lo + 1));
            }
        }
        text.push_str("\n# EOF\n");
        let mut f = std::fs::File::create(dir.join(file)).unwrap();
        f.write_all(text.as_bytes()).unwrap();
        drop(f);
        t.executions += 1;
        let out = dir.join("scripts.rs");
        FULL.with(|f| f.set(bi == 0 || kind != 0));
        let res = std::panic::catch_unwind(|| {
            if FULL.with(|f| f.get()) {
                twice(&out, || run_prop_kind(kind, &dir, &out))
            } else {
                std::fs::remove_file(&out).ok();
                run_prop_kind(kind, &dir, &out)
            }
        });
        let src = match res {
            Err(_) => {
                t.mismatch(json!({"k": "prop", "format": label, "base": base, "lines": doc["lines"], "actual": "panic in the generators"}));
                continue;
            }
            Ok(Err(e)) => {
                t.mismatch(json!({"k": "prop", "format": label, "base": base, "lines": doc["lines"], "actual": format!("generator error: {}", e)}));
                continue;
            }
            Ok(Ok(s)) => s,
        };
        // the two tables were emitted under the names the shared parser knows (T_GC = first value, T_VIR = second value)
        let tb = parse_tables(&src);
        let mut diffs: Vec<Value> = Vec::new();
        if tb.gc != tb.gc2 {
            diffs.push(json!({"table": "the same value registered under two table names", "first": tb.gc.len(), "second": tb.gc2.len()}));
        }
        for mcp in 0..m {
            let cp = base + mcp;
            let g = std::panic::catch_unwind(|| (in_table(cp, &tb.gc), in_table(cp, &tb.vir)));
            match g {
                Err(_) => diffs.push(json!({"cp": mcp, "table": "search panicked"})),
                Ok((greek, hebrew)) => {
                    if json!(greek) != *expected_at(&doc["greek"], mcp) {
                        diffs.push(json!({"cp": mcp, "table": va, "actual": greek}));
                    }
                    if json!(hebrew) != *expected_at(&doc["hebrew"], mcp) {
                        diffs.push(json!({"cp": mcp, "table": vb, "actual": hebrew}));
                    }
                }
            }
        }
        if !diffs.is_empty() {
            t.mismatch(json!({"k": "prop", "format": label, "base": base, "lines": doc["lines"], "diffs": diffs}));
        }
      }
    }
    if doc["lines"].as_array().unwrap().len() > 1 {
        t.nontrivial += 1;
    }
}

/// beyond the listed properties: the UNICODE_VERSION generator reads a version text the way Version.tla says
/// (unanchored `([0-9]+).([0-9]+).([0-9]+)` with permissive dots, leftmost-first), through RustCodeGen and a real file
pub fn replay_version(doc: &Value, t: &mut Tally) {
    let dir = scratch();
    let text: String = doc["text"].as_array().map(|a| a.iter().map(|c| c.as_str().unwrap_or("")).collect()).unwrap_or_default();
    let out = dir.join("version.rs");
    // embedded in the surroundings a build script may hand over as well: the reading of the text itself must not change
    // when the surroundings contain no digit
    for (pre, post) in [("", ""), ("Unicode ", " data"), ("\n", "\n")] {
        let full = format!("{}{}{}", pre, text, post);
        std::fs::remove_file(&out).ok();
        t.executions += 1;
        let res = std::panic::catch_unwind(|| -> Result<String, String> {
            let mut gen = RustCodeGen::new(&out).map_err(|e| e.to_string())?;
            gen.add(Box::new(precis_tools::UnicodeVersionGen::new(&full)));
            gen.generate_code().map_err(|e| e.to_string())?;
            drop(gen);
            std::fs::read_to_string(&out).map_err(|e| e.to_string())
        });
        let actual = match res {
            Err(_) => json!({"panic": true}),
            Ok(Err(_)) => json!({"err": "no version"}),
            Ok(Ok(src)) => {
                let line = src.lines().find(|l| l.contains("UNICODE_VERSION")).unwrap_or("");
                let nums: Vec<u64> = line
                    .rsplit('=')
                    .next()
                    .unwrap_or("")
                    .split(|c: char| !c.is_ascii_digit())
                    .filter(|p| !p.is_empty())
                    .filter_map(|p| p.parse().ok())
                    .collect();
                if nums.len() == 3 {
                    json!({"major": nums[0], "minor": nums[1], "patch": nums[2]})
                } else {
                    json!({"unreadable": line})
                }
            }
        };
        if actual != doc["res"] {
            t.mismatch(json!({"k": "version", "text": full, "expected": doc["res"], "actual": actual}));
        }
    }
    if doc["res"].get("major").is_some() {
        t.nontrivial += 1;
    }
}
