//! C16 recorder: a fresh process in which N threads, released by a barrier, race on the very
//! first use of the lazily created static profiles and then call the library through every
//! API form and argument kind on a shared list of inputs, in per-thread shuffled order.
//! Each thread logs its own events with its own sequence number; `tbl`/`facts` are attached
//! afterwards.  TLC (Trace_Api.tla) judges every result against Sem and requires equal calls
//! to have equal results across threads, forms, argument kinds and histories.

use crate::api::*;
use crate::oracle::Oracle;
use crate::record::{facts_for, Pools};
use crate::util::*;
use serde_json::{json, Value};
use std::io::Write;
use std::sync::{Arc, Barrier};

const SPECIAL: [&str; 20] = [
    "\u{314b}\u{314b}\u{314b}", "\u{3d4}",
    "\u{b4}lvaro", "Zoe \u{a8}Bell", "\u{2163}\u{12163}", "100\u{b5}m",
    "\u{391}\u{3a3}", "\u{39f}\u{394}\u{3a5}\u{3a3}\u{3a3}\u{395}\u{3a5}\u{3a3}", "A\u{3a3} B", "\u{3a3}", "\u{130}x", "Ⅳ x",
    "correct horse", "Richard \u{2163}", "e\u{301}", "\u{ff21}\u{ff22}", " a  b ", "\u{5d0}\u{5b8}", "\u{5d0}1", "",
];

struct Ev {
    thread: u64,
    seq: u64,
    profile: &'static str,
    op: &'static str,
    form: &'static str,
    arg: &'static str,
    args: Vec<String>,
    res: Value,
}

pub fn main(args: &[String]) {
    silence_panics();
    let db = arg_value(args, "--oracle").unwrap_or_else(|| tool_error("--oracle"));
    let out = arg_value(args, "--out").unwrap_or_else(|| tool_error("--out"));
    let seed = arg_u64(args, "--seed", 1);
    let n_threads = arg_u64(args, "--threads", 8);
    let n_calls = arg_u64(args, "--calls", 40);
    let thread_base = arg_u64(args, "--thread-base", 0);
    let o = Oracle::load(&db);
    let pools = Pools::new(&o);
    let mut rng = Rng::new(seed);
    let mut inputs: Vec<String> = SPECIAL.iter().map(|s| s.to_string()).collect();
    if let Some(p) = arg_value(args, "--corpus") {
        let mut corpus: Vec<String> = Vec::new();
        for line in lines_of(&p) {
            if let Ok(v) = serde_json::from_str::<Value>(&line) {
                if let Some(s) = cps_to_string(&v) {
                    corpus.push(s);
                }
            }
        }
        for _ in 0..10 {
            if !corpus.is_empty() {
                inputs.push(rng.pick(&corpus).clone());
            }
        }
    }
    for _ in 0..8 {
        inputs.push(pools.string(&mut rng, 6));
    }
    let inputs = Arc::new(inputs);
    let first_profile = PROFILES[(seed % 4) as usize];
    let barrier = Arc::new(Barrier::new(n_threads as usize));
    let mut hs = Vec::new();
    for t in 0..n_threads {
        let inputs = inputs.clone();
        let barrier = barrier.clone();
        hs.push(std::thread::spawn(move || {
            silence_panics();
            let mut rng = Rng::new(seed * 7919 + t + 1);
            let mut evs: Vec<Ev> = Vec::new();
            let mut seq = 0u64;
            barrier.wait();
            for i in 0..n_calls {
                // the very first call of every thread goes through the same static profile
                let (profile, form, op): (&'static str, &'static str, &'static str) = if i == 0 {
                    (first_profile, "static", "enforce")
                } else {
                    (*rng.pick(&PROFILES), *rng.pick(&["static", "inst", "long", "static"]), *rng.pick(&["enforce", "enforce", "prepare", "compare"]))
                };
                let (kn, kind) = *rng.pick(&ARG_KINDS);
                let a = rng.pick(&inputs).clone();
                let call_args = if op == "compare" { vec![a, rng.pick(&inputs).clone()] } else { vec![a] };
                let (res, _) = call_profile_full(profile, form, op, kind, &call_args);
                seq += 1;
                evs.push(Ev { thread: t, seq, profile, op, form, arg: kn, args: call_args, res });
            }
            evs
        }));
    }
    let mut all: Vec<Ev> = Vec::new();
    for h in hs {
        all.extend(h.join().unwrap_or_else(|_| tool_error("session thread died")));
    }
    let mut f = std::io::BufWriter::new(std::fs::File::create(&out).unwrap());
    let mut panics = 0;
    for e in all.iter() {
        let (facts, tbl, capped) = facts_for(&o, &e.args);
        if e.res.get("panic").is_some() {
            panics += 1;
        }
        writeln!(
            f,
            "{}",
            json!({"ev": "call", "thread": thread_base + e.thread, "seq": e.seq, "profile": e.profile, "op": e.op, "form": e.form, "arg": e.arg,
                   "args": e.args.iter().map(|a| string_to_cps(a)).collect::<Vec<_>>(), "res": e.res, "c08": "", "borrowed": "-",
                   "tbl": tbl, "facts": facts, "capped": capped})
        )
        .unwrap();
    }
    f.flush().unwrap();
    println!("{}", json!({"events": all.len(), "threads": n_threads, "panics": panics, "first_static": first_profile, "inputs": inputs.len()}));
}
