------------------------------- MODULE Base -------------------------------
(***************************************************************************)
(* Values shared by every module of the specification of sancane/precis:   *)
(* results, property values, small sequence helpers, UTF-8 arithmetic.     *)
(* A character is a code point (a natural number); a string / label is a   *)
(* sequence of code points.                                                *)
(***************************************************************************)
EXTENDS Naturals, Integers, Sequences, FiniteSets, TLC

\* ---- results of string-valued operations --------------------------------
Ok(s)        == [ok |-> s]
ErrInvalid   == [err |-> "Invalid"]
ErrBad(cp, pos, prop)     == [err |-> "BadCodepoint", cp |-> cp, pos |-> pos, prop |-> prop]
ErrUndefined == [err |-> "Undefined"]
ErrMissing(cp, pos, prop) == [err |-> "MissingContextRule", cp |-> cp, pos |-> pos, prop |-> prop]
ErrNotAppl(cp, pos, prop) == [err |-> "ContextRuleNotApplicable", cp |-> cp, pos |-> pos, prop |-> prop]
ErrNoRule    == [err |-> "ProfileRuleNotApplicable"]
OkUnit       == [unit |-> TRUE]
OkEq(b)      == [eq |-> b]

IsOk(r)  == "ok"  \in DOMAIN r
IsErr(r) == "err" \in DOMAIN r

\* ---- derived property values (DerivedPropertyValue in the code) ---------
PropValues == {"PVALID", "SPEC_PVAL", "SPEC_DIS", "CONTEXTJ", "CONTEXTO", "DISALLOWED", "UNASSIGNED"}
\* the oracle / IANA spelling for IdentifierClass is ID_DIS; the two classes differ only there
PropOf(cls, idp) == IF idp = "ID_DIS" THEN (IF cls = "Id" THEN "SPEC_DIS" ELSE "SPEC_PVAL") ELSE idp

\* ---- sequence helpers -----------------------------------------------------
RECURSIVE Flat(_)
Flat(ss) == IF ss = <<>> THEN <<>> ELSE Head(ss) \o Flat(Tail(ss))

MapSeq(Op(_), s) == [i \in 1..Len(s) |-> Op(s[i])]
FlatMap(Op(_), s) == Flat([i \in 1..Len(s) |-> Op(s[i])])

\* smallest index i in lo..Len(s) with P(s[i]), or 0
RECURSIVE FirstFrom(_, _, _)
FirstFrom(P(_), s, lo) == IF lo > Len(s) THEN 0 ELSE IF P(s[lo]) THEN lo ELSE FirstFrom(P, s, lo + 1)
First(P(_), s) == FirstFrom(P, s, 1)

Exists(P(_), s) == \E i \in 1..Len(s) : P(s[i])
All(P(_), s)    == \A i \in 1..Len(s) : P(s[i])

\* ---- UTF-8 ----------------------------------------------------------------
ULen(c) == IF c < 128 THEN 1 ELSE IF c < 2048 THEN 2 ELSE IF c < 65536 THEN 3 ELSE 4
RECURSIVE BLen(_)
BLen(s) == IF s = <<>> THEN 0 ELSE ULen(Head(s)) + BLen(Tail(s))
\* byte offset at which character number i (1-based) starts; i = Len(s)+1 gives the byte length
ByteOff(s, i) == BLen(SubSeq(s, 1, i - 1))
\* is byte offset b a character boundary of s ?
IsBoundary(s, b) == \E i \in 1..(Len(s) + 1) : ByteOff(s, i) = b
\* the string starting at byte offset b (only defined on boundaries)
FromByte(s, b) == LET i == CHOOSE i \in 1..(Len(s) + 1) : ByteOff(s, i) = b IN SubSeq(s, i, Len(s))
ToByte(s, b)   == LET i == CHOOSE i \in 1..(Len(s) + 1) : ByteOff(s, i) = b IN SubSeq(s, 1, i - 1)
=============================================================================
