-------------------------------- MODULE Bidi --------------------------------
(***************************************************************************)
(* RFC 5893 section 2, the Bidi rule, over sequences of bidirectional      *)
(* classes (precis-profiles/src/bidi.rs).                                  *)
(*   RfcBidi(cs)     the six conditions, declaratively                     *)
(*   ScanBidi(nsmStrict, cs)  the single left-to-right scan of the code    *)
(*                   with its registers prev / nsm / en / an               *)
(* nsmStrict = TRUE reproduces the code as it is today: once an NSM has    *)
(* been seen only NSM may follow (bidi.rs:132-137, 168-173).  RFC 5893     *)
(* constrains only the END of the label; nsmStrict = FALSE is that         *)
(* behaviour.  The deviation is a named switch, not silently absorbed.     *)
(***************************************************************************)
EXTENDS Base

BidiClasses == {"AL", "AN", "B", "BN", "CS", "EN", "ES", "ET", "FSI", "L", "LRE", "LRI", "LRO", "NSM",
                "ON", "PDF", "PDI", "R", "RLE", "RLI", "RLO", "S", "WS"}

RtlAllowed == {"R", "AL", "AN", "EN", "ES", "CS", "ET", "ON", "BN", "NSM"}
LtrAllowed == {"L", "EN", "ES", "CS", "ET", "ON", "BN", "NSM"}
RtlEnd == {"R", "AL", "EN", "AN"}
LtrEnd == {"L", "EN"}

HasRtlClasses(cs) == \E i \in 1..Len(cs) : cs[i] \in {"R", "AL", "AN"}

\* index of the last non-NSM character, 0 if there is none
LastNonNsm(cs) == LET S == {i \in 1..Len(cs) : cs[i] # "NSM"} IN
                  IF S = {} THEN 0 ELSE CHOOSE i \in S : \A j \in S : j <= i

\* ---- declarative: the six conditions ------------------------------------------
RfcBidi(cs) ==
  IF cs = <<>> THEN TRUE                                       \* the code accepts the empty label
  ELSE
  /\ cs[1] \in {"L", "R", "AL"}                                                          \* 1
  /\ cs[1] \in {"R", "AL"} =>
       /\ \A i \in 1..Len(cs) : cs[i] \in RtlAllowed                                      \* 2
       /\ LastNonNsm(cs) # 0 /\ cs[LastNonNsm(cs)] \in RtlEnd                             \* 3
       /\ ~((\E i \in 1..Len(cs) : cs[i] = "EN") /\ (\E i \in 1..Len(cs) : cs[i] = "AN")) \* 4
  /\ cs[1] = "L" =>
       /\ \A i \in 1..Len(cs) : cs[i] \in LtrAllowed                                      \* 5
       /\ LastNonNsm(cs) # 0 /\ cs[LastNonNsm(cs)] \in LtrEnd                             \* 6

\* ---- implementation-shaped: one step of each scan as a function on registers --
\* RTL registers: [prev, nsm, en, an, dead]; dead = the scan has returned false
RtlInit(first) == [prev |-> first, nsm |-> FALSE, en |-> FALSE, an |-> FALSE, dead |-> FALSE]
RtlStep(nsmStrict, r, class) ==
  IF r.dead THEN r
  ELSE IF class \notin RtlAllowed THEN [r EXCEPT !.dead = TRUE]
  ELSE IF class = "NSM"
       THEN (IF nsmStrict /\ r.prev \notin RtlEnd THEN [r EXCEPT !.dead = TRUE]
             ELSE [r EXCEPT !.nsm = TRUE])
  ELSE IF class = "AN" /\ r.en THEN [r EXCEPT !.dead = TRUE]
  ELSE IF class = "EN" /\ r.an THEN [r EXCEPT !.dead = TRUE]
  ELSE IF nsmStrict /\ r.nsm THEN [r EXCEPT !.dead = TRUE]
  ELSE [r EXCEPT !.prev = class, !.nsm = FALSE,
                 !.en = (r.en \/ class = "EN"), !.an = (r.an \/ class = "AN")]
RtlAccept(nsmStrict, r) ==
  ~r.dead /\ (IF nsmStrict THEN (r.nsm \/ r.prev \in RtlEnd) ELSE r.prev \in RtlEnd)

LtrInit(first) == [prev |-> first, nsm |-> FALSE, en |-> FALSE, an |-> FALSE, dead |-> FALSE]
LtrStep(nsmStrict, r, class) ==
  IF r.dead THEN r
  ELSE IF class \notin LtrAllowed THEN [r EXCEPT !.dead = TRUE]
  ELSE IF class = "NSM"
       THEN (IF nsmStrict /\ r.prev \notin LtrEnd THEN [r EXCEPT !.dead = TRUE]
             ELSE [r EXCEPT !.nsm = TRUE])
  ELSE IF nsmStrict /\ r.nsm THEN [r EXCEPT !.dead = TRUE]
  ELSE [r EXCEPT !.prev = class, !.nsm = FALSE]
LtrAccept(nsmStrict, r) ==
  ~r.dead /\ (IF nsmStrict THEN (r.nsm \/ r.prev \in LtrEnd) ELSE r.prev \in LtrEnd)

RECURSIVE RunFrom(_, _, _, _, _)
RunFrom(Step(_, _), r, cs, i, dummy) == IF i > Len(cs) THEN r ELSE RunFrom(Step, Step(r, cs[i]), cs, i + 1, dummy)

ScanBidi(nsmStrict, cs) ==
  IF cs = <<>> THEN TRUE
  ELSE IF cs[1] \in {"R", "AL"}
       THEN RtlAccept(nsmStrict, RunFrom(LAMBDA r, c : RtlStep(nsmStrict, r, c), RtlInit(cs[1]), cs, 2, 0))
  ELSE IF cs[1] = "L"
       THEN LtrAccept(nsmStrict, RunFrom(LAMBDA r, c : LtrStep(nsmStrict, r, c), LtrInit(cs[1]), cs, 2, 0))
  ELSE FALSE

\* the finding of DESIGN.md section 7 item 4 as a predicate on class sequences:
\* some non-NSM character follows an NSM
InteriorNsm(cs) == \E i \in 1..Len(cs) : \E j \in (i + 1)..Len(cs) : cs[i] = "NSM" /\ cs[j] # "NSM"

\* ---- over characters ------------------------------------------------------------
ClassesOf(W, s) == [i \in 1..Len(s) |-> W.u[s[i]].bidi]
HasRtl(W, s) == HasRtlClasses(ClassesOf(W, s))
\* the directionality rule of the username profiles (usernames.rs:46-58)
\* W.dev is the set of named deviations switched on (empty = the property as stated);
\* "bidi_nsm_strict" makes the rule behave like the scan of the code as it is today.
DirectionalityOk(W, s) ==
  HasRtl(W, s) => (IF "bidi_nsm_strict" \in W.dev THEN ScanBidi(TRUE, ClassesOf(W, s)) ELSE RfcBidi(ClassesOf(W, s)))
=============================================================================
