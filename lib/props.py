"""One function per property: what is model-checked, what is replayed, what is validated."""
import json
import os

from common import nl_lines, Check, log, tool_error
from l1 import apply_l1
from common import CACHE, ensure_oracle, run_harness
from l3 import l3_run, long_run, race_run
from mc import replay, run_mc, spec_violation

TIERS = ("quick", "thorough")


# --------------------------------------------------------------------------------- C18
def C18(chk):
    w = 7 if chk.tier == "quick" else 8
    cfg = "SPECIFICATION Spec\nCONSTANT W = %d\nINVARIANT PairOk\nINVARIANT TableOk\nINVARIANT Emit\nCHECK_DEADLOCK FALSE\n" % w
    mc = run_mc("MC_Codepoints", cfg, "c18", workers=4)
    if mc.res.violated:
        return spec_violation(chk, mc, "MC_Codepoints")
    replay(chk, mc, "MC_Codepoints(W=%d)" % w, harness_args=["--window", str(w)])
    # the same statements for ALL natural numbers, proved with TLAPS (removes the small-window argument at model level)
    from common import run_tlapm
    n_obl = run_tlapm("CodepointsProof.tla")
    chk.cov["obligations"] = n_obl
    chk.cov["discharged"] = n_obl
    chk.add_part("TLAPS:CodepointsProof", {"obligations_proved": n_obl, "theorems": ["RangeTrichotomy", "RangeCoherent", "RangeMirrored", "SingleTrichotomy", "SortedIsMonotone"]})
    # the binary searches the property is anchored in (derived-property tables, context tables, Bidi_Class, width mapping,
    # space separators), every code point as search key: the real tables with the real look-up functions
    apply_l1(chk, ["id", "ff", "wm1", "wm2", "wm3", "bidi", "vir", "greek", "hebrew", "kana", "ld", "rd", "osp", "nsp"], nontrivial_key="runs")
    chk.cov["exhaustive"] = True
    chk.cov["rule"] = ("every entry (single, range start<=end) x every code point of a window of %d values: the 12 hand-written "
                       "operators; every sorted table over the window x every code point: binary search; each replayed against "
                       "precis_core::Codepoints at 5 bases of the u32 range (0, 0x7a, 0x10FFFA, 2^31-4, u32::MAX-(W-1)) and, for code points outside the entry, with entry and code point >= 2^31 apart. "
                       "non-trivial = distinct (entry, cp) pairs plus tables with more than one entry" % w)
    chk.assumptions += ["an order-only definition is decided by a window containing every relative position of cp to start<=end",
                        "TLC, JVM, rustc"]


# --------------------------------------------------------------------------------- C13
def C13(chk):
    n = 5 if chk.tier == "quick" else 6
    cfg = ("SPECIFICATION Spec\nCONSTANTS\n  NStates = %d\n  D <- MCD\n  E1 = E1\n  E2 = E2\n  MaxApps = 4\n  Starts = {1}\n"
           "INVARIANT Contract\nINVARIANT Emit\nPROPERTY Terminates\nVIEW View\nCHECK_DEADLOCK FALSE\n" % n)
    mc = run_mc("MC_Stabilize", cfg, "c13", workers=6, timeout=3000, heap="8g")
    if mc.res.violated:
        return spec_violation(chk, mc, "MC_Stabilize")
    replay(chk, mc, "MC_Stabilize(|D|=%d)" % n)
    # the two rule sets Nickname binds to stabilize (enforcement, comparison), one after the other on the same strings
    l3_run(chk, "nickname-stabilize-echo", driver="echo", strings=24 if chk.tier == "quick" else 200, profiles=["NICK"], max_len=6, seed_offset=11)
    if chk.tier == "thorough":
        import selftest
        chk.notes.append("binding self-test: " + selftest.selftest_l2())
    chk.cov["exhaustive"] = True
    chk.cov["rule"] = ("every rule function f: D -> D u {E1,E2} on |D|=%d states, start fixed by symmetry; the loop machine is "
                       "checked against the contract (fixed point, orbit membership, <=4 calls, f's own error, Invalid otherwise) and "
                       "liveness; every behaviour is replayed into precis_core::profile::stabilize with a recording closure, for two "
                       "assignments of multi-byte strings to states and two Cow policies (owned / borrowed sub-slice); "
                       "non-trivial = behaviours with more than one call or an error" % n)
    chk.assumptions += ["small scope: the loop inspects an orbit prefix of at most 5 elements, so |D| >= 5 exhibits every behaviour"]


# --------------------------------------------------------------------------------- L1-only parts
def order_sweep(chk):
    """classification of every value is a function of the value only: ten call orders (four lookups per visit and one lookup per visit), aliases above U+10FFFF, 8 threads"""
    import shutil
    scratch = os.path.join(CACHE, "ordersweep-%d" % os.getpid())
    try:
        out, t = run_harness(["ordersweep", "--seed", str(chk.seed), "--scratch", scratch, "--lockstep", "3" if chk.tier == "quick" else "30"])
    finally:
        shutil.rmtree(scratch, ignore_errors=True)
    osum = None
    for line in out.splitlines():
        d = json.loads(line)
        if "summary" in d:
            osum = d["summary"]
        elif "problem" in d:
            chk.violation("classification depends on the calls made before / on truncated bits of the value: %s" % json.dumps(d["problem"], sort_keys=True)[:400],
                          {"layer": "sweep", "case": d["problem"]})
    if osum is None:
        tool_error("ordersweep gave no summary")
    chk.add_part("order sweep", dict(osum, wall_s=round(t, 1)))
    chk.cov["evaluations"] += osum["calls"]


def C14(chk):
    order_sweep(chk)
    apply_l1(chk, ["id", "ff", "ns", "al"], full32=(chk.tier == "thorough"), nontrivial_key="sigs")
    if chk.tier == "thorough":
        import selftest
        chk.notes.append("binding self-test: " + selftest.selftest_l1())
    chk.cov["rule"] = ("all scalar values 0..10FFFF through both classes and both entry points, surrogates, and values above "
                       "U+10FFFF (thorough: all 2^32; quick: boundaries, powers of two, 200k seeded samples); one trace event per run "
                       "of equal (oracle signature, observables); TLC evaluates the RFC 8264 decision list on the signature; "
                       "non-trivial = distinct category signatures")


# --------------------------------------------------------------------------------- profile machine
KF_BIDI = "KF-C09-bidi-interior-nsm"
KF_CHEROKEE = "KF-C08-cherokee-lowercase-unassigned"
CHEROKEE_LOWER = set(range(0xAB70, 0xABC0)) | set(range(0x13F8, 0x13FE))


def classify_std(m):
    """known findings of DESIGN.md section 7, identified by model-checked signature / input range"""
    if m.get("dev") == "bidi_nsm_strict":
        return KF_BIDI
    if m.get("k") == "c08" and m.get("p") == "UCM" and m["what"].get("c08") == "forbidden" \
            and m["what"].get("cp") in CHEROKEE_LOWER and any(0x13A0 <= c <= 0x13F5 for c in m.get("in", [])):
        return KF_CHEROKEE
    return None


ALL_INVS = ["Agree", "PrepareFailurePropagates", "NoDrift", "OutputClean", "FixedPoint", "OnlySpacesChange",
            "MappingsAgree", "MappingsIdempotent", "AllowsAgree", "PowerLawHolds", "PadLawHolds", "CompFormPadLaw"]


def profiles_mc(chk, name, roles, maxlen, profs, ops, instances=(0,), invariants=ALL_INVS, forms=True, workers=6, timeout=2400, frame=None):
    """MC_Profiles over a generated alphabet: TLC checks the invariants on every string, emits every
    behaviour, the harness replays them into the real API"""
    import universe
    for inst in instances:
        tag = "%s-i%d" % (name, inst)
        all_roles = list(roles) + [r for r in (frame[3] if frame else ()) if r not in roles]
        upath, chosen, u = universe.generate(all_roles, inst, chk.seed, tag=tag, sigma=roles)
        cfg = "SPECIFICATION Spec\nCONSTANTS\n  MaxLen = %d\n  Profs = {%s}\n  Ops = {%s}\n  FirstSyms = {}\n" % (
            0 if frame else maxlen, ", ".join('"%s"' % p for p in profs), ", ".join('"%s"' % o for o in ops))
        if frame:
            fi, fj, fk, fillers = frame
            cfg += "  FrameOn = TRUE\n  FI = %d\n  FJ = %d\n  FK = %d\n  Fillers = {%s}\n" % (fi, fj, fk, ", ".join(str(chosen[r]) for r in fillers))
        else:
            cfg += "  FrameOn = FALSE\n  FI = 0\n  FJ = 0\n  FK = 0\n  Fillers = {}\n"
        cfg += "".join("INVARIANT %s\n" % i for i in invariants) + "INVARIANT Emit\nVIEW View\nCHECK_DEADLOCK FALSE\n"
        mc = run_mc("MC_Profiles", cfg, tag, workers=workers, timeout=timeout, extra_files=[upath], heap="8g")
        import shutil
        shutil.rmtree(os.path.dirname(upath), ignore_errors=True)
        label = "%s[%s] %s inst=%d" % (name, ",".join("%s=U+%04X" % (r, chosen[r]) for r in roles),
                                       ("framed f^i x g^j y g^k i<=%d j<=%d k<=%d fillers %s" % frame) if frame else ("len<=%d" % maxlen), inst)
        if mc.res.violated:
            spec_violation(chk, mc, label)
            continue
        replay(chk, mc, label, harness_args=(["--forms"] if forms else []), classify=classify_std)


def C04(chk):
    q = chk.tier == "quick"
    n = 3 if q else 4
    insts = (0, 1) if q else (0, 1, 2, 3)
    profs, ops = ["UCM", "UCP"], ["prepare", "enforce"]
    profiles_mc(chk, "width-case", ["a", "A", "FWA", "fwa", "HWK", "ISP", "FWBANG", "SP", "d1"], n, profs, ops, insts)
    profiles_mc(chk, "case-nfc", ["A", "e", "acute", "Eac", "angst", "Sig", "dotI", "cedil", "ypo"], n, profs, ops, insts)
    profiles_mc(chk, "nfc-marks", ["e", "acute", "vlb", "tone", "cedil", "Eac", "A"], n, profs, ["enforce"], (0,))
    profiles_mc(chk, "nfc-bidi", ["heb", "hpt", "a", "d1", "aid", "eaid", "arab", "fatha", "dot"], n, profs, ops, insts)
    profiles_mc(chk, "context-case", ["l", "mdot", "A", "grk", "GRK", "keraia", "ZWJ", "vir", "deva"], n, profs, ops, insts)
    profiles_mc(chk, "context-joiners", ["ZWNJ", "ZWJ", "vir", "acute", "deva", "arab", "alef", "a", "A"], n, profs, ops, (0,))
    profiles_mc(chk, "framed", ["A", "FWA", "Eac", "acute", "heb", "hpt", "aid", "d1", "mdot", "l"], 0, profs, ["enforce"], (0,),
                invariants=["Agree", "NoDrift"], frame=(8, 2, 1, ("a", "eac")) if q else (9, 4, 2, ("a", "eac")))
    apply_l1(chk, ["wm", "lc1", "lc3", "lc4", "bidi", "pp"], nontrivial_key="runs")
    l3_run(chk, "usernames-limits", driver="limits", per_string=2, kinds=["enforce"], profiles=profs, seed_offset=5)
    l3_run(chk, "usernames-marks", driver="marks", per_string=1, kinds=["enforce"], profiles=profs, seed_offset=6)
    long_run(chk, profiles=profs, ops=["prepare", "enforce"], max_bytes=5000 if q else 70000)
    l3_run(chk, "usernames-echo", driver="echo", strings=24 if q else 200, profiles=profs, max_len=6, seed_offset=11)
    race_run(chk, processes=40 if q else 400, long_processes=1 if q else 10, judge=False)
    l3_run(chk, "usernames", strings=1200 if q else 8000, per_string=4, kinds=["enforce", "enforce", "prepare"], profiles=profs)
    if not q:
        import selftest
        chk.notes.append("binding self-test: " + selftest.selftest_l3())
    chk.cov["exhaustive"] = True
    chk.cov["rule"] = ("every string of length <= %d over five 9-role alphabets (width x validation x case, case x NFC, NFC x bidi, "
                       "context x case, joiners x virama x transparent marks x joining letters), canonical instance plus %d seeded random instances of the same roles; both username profiles, "
                       "prepare and enforce; the pipeline machine is checked step by step by TLC (Agree, PrepareFailurePropagates, "
                       "NoDrift, OutputClean, ...) and every behaviour is replayed into the real API, result and error payload compared; "
                       "non-trivial = behaviours with more than one pipeline step executed" % (n, len(insts) - 1))


def C05(chk):
    q = chk.tier == "quick"
    n = 3 if q else 4
    insts = (0, 1) if q else (0, 1, 2, 3)
    ops = ["prepare", "enforce", "additional_mapping_rule", "normalization_rule"]
    profiles_mc(chk, "opq-spaces", ["a", "A", "SP", "NBSP", "OGH", "ISP", "EQD", "EMSP", "TAB", "DEL"], n, ["OPQ"], ops, insts)
    profiles_mc(chk, "opq-hangul", ["jamo", "jamoV", "jamoT", "hsyl", "hcj", "a", "NBSP"], n, ["OPQ"], ops, insts)
    profiles_mc(chk, "opq-compat", ["a", "FWA", "rom4", "e", "acute", "angst", "emo", "NBSP", "diaer"], n, ["OPQ"], ops, insts)
    profiles_mc(chk, "opq-marks", ["e", "acute", "vlb", "tone", "cedil", "grk", "NBSP"], n + 1 if q else n, ["OPQ"], ["enforce", "normalization_rule"], (0,))
    profiles_mc(chk, "opq-framed", ["NBSP", "ISP", "e", "acute", "angst", "TAB"], 0, ["OPQ"], ["enforce"], (0,),
                invariants=["Agree", "OnlySpacesChange", "NoDrift"], frame=(8, 3, 2, ("a", "eac")) if q else (9, 9, 3, ("a", "eac", "han")))
    apply_l1(chk, ["osp", "pp"], nontrivial_key="zs")
    l3_run(chk, "opaque-limits", driver="limits", per_string=2, kinds=["enforce"], profiles=["OPQ"], seed_offset=5)
    long_run(chk, profiles=["OPQ"], ops=ops)
    l3_run(chk, "opaque-echo", driver="echo", strings=24 if q else 200, profiles=["OPQ"], max_len=6, seed_offset=11)
    race_run(chk, processes=40 if q else 400, long_processes=1 if q else 10, judge=False)
    l3_run(chk, "opaque", strings=1200 if q else 8000, per_string=3, kinds=["enforce", "enforce", "prepare", "additional_mapping_rule"], profiles=["OPQ"])
    chk.cov["exhaustive"] = True
    chk.cov["rule"] = ("every string of length <= %d over two 9-role alphabets (all kinds of spaces incl. controls; compatibility, "
                       "case, decomposed and 4-byte characters), canonical + %d random instances; OpaqueString prepare / enforce / "
                       "additional_mapping_rule / normalization_rule as a step machine checked by TLC (OnlySpacesChange, Agree, NoDrift, "
                       "OutputClean) and replayed into the real API; L1: every code point through additional_mapping_rule" % (n, len(insts) - 1))


def C06(chk):
    q = chk.tier == "quick"
    n = 3 if q else 4
    insts = (0, 1) if q else (0, 1, 2)
    ops = ["prepare", "enforce"]
    profiles_mc(chk, "nick-spaces", ["a", "A", "SP", "NBSP", "ISP", "diaer", "EMSP", "OGH"], n + 1, ["NICK"], ops, insts)
    profiles_mc(chk, "nick-compat", ["a", "rom4", "hcj", "eac", "han", "emo", "FWA", "SP", "diaer"], n, ["NICK"], ops, insts)
    profiles_mc(chk, "nick-hangul", ["jamo", "jamoV", "hsyl", "jamoT", "hcj", "a", "OGH", "SP"], n, ["NICK"], ops, insts)
    profiles_mc(chk, "nick-nfkc", ["e", "acute", "Eac", "cedil", "SP", "rom4", "angst", "hy"], n, ["NICK"], ops, insts)
    profiles_mc(chk, "nick-marks", ["e", "acute", "vlb", "tone", "cedil", "SP", "A"], n + 1 if q else n, ["NICK"], ["enforce"], (0,))
    profiles_mc(chk, "nick-latin1", ["micro", "sup2", "ordm", "a", "SP", "diaer", "two"], n, ["NICK"], ops, insts)
    profiles_mc(chk, "nick-framed", ["SP", "NBSP", "diaer", "rom4", "hcj", "emo"], 0, ["NICK"], ["enforce"], (0,),
                invariants=["Agree", "FixedPoint", "NoDrift"], frame=(8, 3, 2, ("a", "eac", "SP")) if q else (9, 9, 3, ("a", "eac", "SP")))
    apply_l1(chk, ["nsp", "lc5", "pp"], nontrivial_key="zs")
    l3_run(chk, "nickname-limits", driver="limits", per_string=2, kinds=["enforce"], profiles=["NICK"], seed_offset=5)
    l3_run(chk, "nickname-expanders", driver="expanders", per_string=1, kinds=["enforce"], profiles=["NICK"], seed_offset=4)
    long_run(chk, profiles=["NICK"], ops=ops)
    l3_run(chk, "nickname-echo", driver="echo", strings=24 if q else 200, profiles=["NICK"], max_len=6, seed_offset=11)
    race_run(chk, processes=40 if q else 400, long_processes=1 if q else 10, judge=False)
    l3_run(chk, "nickname", strings=1200 if q else 8000, per_string=3, kinds=["enforce", "enforce", "prepare"], profiles=["NICK"], max_len=10)
    chk.cov["exhaustive"] = True
    chk.cov["rule"] = ("every string of length <= %d over a space alphabet (incl. U+00A8 whose NFKC introduces a leading space, so that "
                       "a second and third application are needed) and <= %d over a compatibility alphabet (incl. Hangul compatibility "
                       "jamo whose NFKC is DISALLOWED), canonical + %d random instances; Nickname prepare/enforce as a round machine "
                       "(stabilize) checked by TLC (FixedPoint, Agree, NoDrift, OutputClean) and replayed" % (n + 1, n, len(insts) - 1))


def C10(chk):
    q = chk.tier == "quick"
    n = 4 if q else 5
    insts = (0, 1) if q else (0, 1, 2, 3)
    profiles_mc(chk, "case", ["a", "A", "ypo", "dz", "dotI", "DSR", "Sig", "han"], n, ["UCM", "NICK"],
                ["case_mapping_rule"], insts, invariants=["Agree", "MappingsAgree", "MappingsIdempotent"])
    profiles_mc(chk, "case-enforce", ["a", "A", "ypo", "dotI", "DSR", "Sig", "GRK", "Eac"], n - 1, ["UCM"], ["enforce"], insts)
    profiles_mc(chk, "case-framed", ["A", "ypo", "dotI", "DSR", "Sig", "Eac"], 0, ["UCM", "NICK"], ["case_mapping_rule"], (0,),
                invariants=["Agree", "MappingsAgree"], frame=(8, 3, 1, ("a", "eac", "han")) if q else (17, 5, 2, ("a", "eac", "han")))
    apply_l1(chk, ["lc"], nontrivial_key="lower")
    long_run(chk, profiles=["UCM", "NICK"], ops=["case_mapping_rule"])
    l3_run(chk, "case-echo", driver="echo", strings=24 if q else 200, profiles=["UCM"], max_len=6, seed_offset=11)
    race_run(chk, processes=40 if q else 400, long_processes=1 if q else 10, judge=False)
    l3_run(chk, "case", strings=1000 if q else 6000, per_string=3, kinds=["case_mapping_rule", "case_mapping_rule", "enforce"], profiles=["UCM", "NICK"])
    chk.cov["exhaustive"] = True
    chk.cov["rule"] = ("every string of length <= %d over {lowercase, uppercase, titlecase (U+1F88, U+01C5), U+0130 (one-to-many), "
                       "4-byte cased, sigma, uncased} through case_mapping_rule of both profiles that define it, and <= %d through "
                       "UsernameCaseMapped::enforce; TLC checks that the copy-on-first-change scan equals the per-character map; all "
                       "behaviours replayed; L1: every code point alone, after 'A' and before 'A' against char::to_lowercase" % (n, n - 1))


def C11(chk):
    q = chk.tier == "quick"
    n = 4 if q else 5
    insts = (0, 1) if q else (0, 1, 2, 3)
    profiles_mc(chk, "width", ["a", "FWA", "HWK", "ISP", "rom4", "eac", "emo", "fwa", "cjkp", "ffun"], n, ["UCM", "UCP"],
                ["width_mapping_rule"], insts, invariants=["Agree", "MappingsAgree", "MappingsIdempotent"])
    profiles_mc(chk, "width-prepare", ["a", "FWA", "HWK", "ISP", "rom4", "eac", "FWBANG"], n - 1, ["UCM", "UCP"], ["prepare"], insts)
    profiles_mc(chk, "width-framed", ["FWA", "HWK", "ISP", "han", "cjkp", "emo"], 0, ["UCM"], ["width_mapping_rule"], (0,),
                invariants=["Agree", "MappingsAgree"], frame=(9, 3, 1, ("a", "han")) if q else (17, 5, 2, ("a", "eac", "han")))
    apply_l1(chk, ["wm", "pp"], nontrivial_key="wm")
    long_run(chk, profiles=["UCM", "UCP"], ops=["width_mapping_rule", "prepare"])
    l3_run(chk, "width-echo", driver="echo", strings=24 if q else 200, profiles=["UCM", "UCP"], max_len=6, seed_offset=11)
    race_run(chk, processes=40 if q else 400, long_processes=1 if q else 10, judge=False)
    l3_run(chk, "width", strings=1000 if q else 6000, per_string=3, kinds=["width_mapping_rule", "width_mapping_rule", "prepare"], profiles=["UCM", "UCP"])
    chk.cov["exhaustive"] = True
    chk.cov["rule"] = ("every string of length <= %d over {ASCII, fullwidth upper/lower, halfwidth katakana, ideographic space, other "
                       "compatibility (roman numeral), 2- and 4-byte unmapped} through width_mapping_rule, <= %d through prepare; "
                       "scan = per-character map and idempotence checked by TLC; replayed; L1: every code point alone, after 'a', "
                       "before 'a' against <wide>/<narrow> of pinned UnicodeData 16.0.0" % (n, n - 1))


def C12(chk):
    q = chk.tier == "quick"
    n = 5 if q else 6
    insts = (0,) if q else (0, 1)
    profiles_mc(chk, "spaces-controls", ["SP", "NBSP", "TAB", "a", "han", "LSEP"], n, ["NICK", "OPQ"],
                ["additional_mapping_rule"], insts, invariants=["Agree", "MappingsAgree", "MappingsIdempotent", "OnlySpacesChange"])
    profiles_mc(chk, "spaces", ["SP", "NBSP", "OGH", "a", "eac", "han", "emo"], n, ["NICK", "OPQ"],
                ["additional_mapping_rule"], insts, invariants=["Agree", "MappingsAgree", "MappingsIdempotent", "OnlySpacesChange"])
    profiles_mc(chk, "spaces-enforce", ["SP", "NBSP", "ISP", "a", "eac", "emo"], n - 1, ["NICK", "OPQ"], ["enforce"], insts)
    profiles_mc(chk, "spaces-framed", ["SP", "NBSP", "OGH", "ISP", "han", "emo"], 0, ["NICK", "OPQ"], ["additional_mapping_rule", "enforce"], (0,),
                invariants=["Agree", "MappingsAgree", "MappingsIdempotent"], frame=(8, 3, 2, ("a", "eac")) if q else (9, 9, 3, ("a", "eac", "SP")))
    apply_l1(chk, ["osp", "nsp"], nontrivial_key="zs")
    long_run(chk, profiles=["NICK", "OPQ"], ops=["additional_mapping_rule"])
    l3_run(chk, "spaces-echo", driver="echo", strings=24 if q else 200, profiles=["NICK", "OPQ"], max_len=6, seed_offset=11)
    race_run(chk, processes=40 if q else 400, long_processes=1 if q else 10, judge=False)
    l3_run(chk, "spaces", strings=1000 if q else 6000, per_string=3, kinds=["additional_mapping_rule", "additional_mapping_rule", "enforce"], profiles=["NICK", "OPQ"], max_len=10)
    chk.cov["exhaustive"] = True
    chk.cov["rule"] = ("every string of length <= %d over {SP, NBSP (2-byte Zs), OGHAM (3-byte Zs), 1/2/3/4-byte non-spaces} through both "
                       "additional mapping rules, <= %d through enforce; TLC checks two-phase scan (byte offsets, begin/prev_space "
                       "registers) = map+strip+collapse, slices on character boundaries, idempotence; replayed; L1: all 17 Zs and all "
                       "other code points between two letters" % (n, n - 1))


def generic_mc(chk, module, name, roles, consts, invariants, instances=(0,), workers=6, timeout=2400, harness_args=(), need_oracle=False):
    """a model-checking configuration over a generated alphabet, with replay"""
    import shutil
    import universe
    for inst in instances:
        tag = "%s-i%d" % (name, inst)
        upath, chosen, u = universe.generate(roles, inst, chk.seed, tag=tag)
        cdefs = []
        for k, v in consts.items():
            if callable(v):
                v = v(chosen)
            cdefs.append("  %s = %s" % (k, v))
        cfg = "SPECIFICATION Spec\nCONSTANTS\n" + "\n".join(cdefs) + "\n"
        cfg += "".join("INVARIANT %s\n" % i for i in invariants) + "INVARIANT Emit\nCHECK_DEADLOCK FALSE\n"
        mc = run_mc(module, cfg, tag, workers=workers, timeout=timeout, extra_files=[upath], heap="8g")
        shutil.rmtree(os.path.dirname(upath), ignore_errors=True)
        label = "%s:%s[%s] %s inst=%d" % (module, name, ",".join("%s=U+%04X" % (r, chosen[r]) for r in roles),
                                          " ".join("%s=%s" % (k, v if not callable(v) else "..") for k, v in consts.items() if k == "MaxLen"), inst)
        if mc.res.violated:
            spec_violation(chk, mc, label)
            continue
        replay(chk, mc, label, harness_args=list(harness_args), classify=classify_std, need_oracle=need_oracle)


def tla_set(strs):
    return "{" + ", ".join('"%s"' % x for x in strs) + "}"


CTX_INVS = ["ScanEqualsDeclarative", "NotApplOnlyForeign", "UndefinedOnlyOutside", "RegistryMatchesProperty",
            "RegisteredRuleApplies", "StdClassesSound", "CtxPadLaw", "AllowsPadLaw"]


def C03(chk):
    q = chk.tier == "quick"
    n = 4 if q else 5
    insts = (0, 1) if q else (0, 1, 2, 3)
    generic_mc(chk, "MC_Context", "joiners", ["ZWNJ", "ZWJ", "vir", "arab", "alef", "ljoin", "fatha", "a"],
               {"MaxLen": n, "Rules": tla_set(["zwnj", "zwj", "middle_dot"])}, CTX_INVS, insts)
    generic_mc(chk, "MC_Context", "whole-label", ["kmdot", "hira", "han", "kata", "a", "aid", "eaid", "mdot", "l"],
               {"MaxLen": n - 1 if q else n, "Rules": tla_set(["katakana", "arabic_indic", "ext_arabic_indic", "middle_dot"])}, CTX_INVS, insts)
    generic_mc(chk, "MC_Context", "neighbours", ["keraia", "grk", "GRK", "geresh", "heb", "hpt", "a", "l", "mdot"],
               {"MaxLen": n - 1 if q else n, "Rules": tla_set(["keraia", "hebrew", "middle_dot", "zwj"])}, CTX_INVS, insts)
    apply_l1(chk, ["reg", "vir", "greek", "hebrew", "kana", "ld", "rd", "md", "aidx", "eaidx", "own", "al"], nontrivial_key="ctx")
    long_run(chk, profiles=["OPQ"], ops=["prepare"], ctx=True, max_bytes=3000, name="long-ctx")
    l3_run(chk, "context-pairs", driver="ctxpairs")
    l3_run(chk, "context-limits", driver="ctxlimits")
    l3_run(chk, "context", strings=1200 if q else 8000, per_string=4, kinds=["ctx", "ctx", "ctx", "allows"])
    chk.cov["exhaustive"] = True
    chk.cov["rule"] = ("every label of length <= %d over three generated alphabets (joiners with L/D/R/T/U joining types and a virama; "
                       "whole-label rules; Before/After rules), canonical + %d random instances; every public rule function at every "
                       "offset 0..len+1; TLC checks scan = declarative RFC 5892 formulation, not-applicable/undefined conditions, "
                       "registry <=> derived property; every (label, rule, offset) and allows() of both classes replayed; L1: every code "
                       "point as the inspected neighbour of every table-driven rule (virama, Greek, Hebrew, kana/Han, L/D and R/D joining "
                       "with T handling) and the registry, against Scripts/DerivedJoiningType/UnicodeData 6.3.0" % (n, len(insts) - 1))


def C02(chk):
    q = chk.tier == "quick"
    insts = (0, 1) if q else (0, 1, 2)
    free_q = lambda ch: "{%d, %d}" % (ch["eac"], ch["han"])
    free_t = lambda ch: "{%d, %d, %d}" % (ch["eac"], ch["han"], ch["emo"])
    sc_invs = ["LoopEqualsSpec", "AcceptIff", "FirstOffender"]
    if q:
        generic_mc(chk, "MC_StringClass", "user-class", ["ZWJ", "vir", "mdot", "l", "eac", "han"],
                   {"MaxLen": 4, "FreeSyms": free_q}, sc_invs, (0,))
    else:
        generic_mc(chk, "MC_StringClass", "user-class", ["ZWJ", "vir", "mdot", "l", "eac", "han", "emo"],
                   {"MaxLen": 4, "FreeSyms": free_t}, sc_invs, (0,), timeout=3000)
    n = 4 if q else 5
    generic_mc(chk, "MC_Context", "all-properties", ["a", "SP", "TAB", "unas", "ZWJ", "vir", "mdot", "l", "jamo", "rom4", "emo", "han"],
               {"MaxLen": n - 1 if q else n - 1, "Rules": tla_set(["zwj"])}, CTX_INVS, insts)
    generic_mc(chk, "MC_Context", "contextual", ["ZWNJ", "ZWJ", "vir", "fatha", "arab", "mdot", "l", "aid", "eaid", "TAB"],
               {"MaxLen": n, "Rules": "{}"}, CTX_INVS, insts)
    generic_mc(chk, "MC_StringClass", "user-class-digits", ["aid", "eaid", "a", "mdot", "l", "kmdot", "hira"],
               {"MaxLen": 4 if q else 5, "FreeSyms": lambda ch: "{%d, %d}" % (ch["eaid"], ch["kmdot"])}, sc_invs, (0,))
    apply_l1(chk, ["reg", "id", "ff", "vir", "greek", "hebrew", "kana", "ld", "rd", "md", "aidx", "eaidx", "own", "al", "pp"], nontrivial_key="ctx")
    l3_run(chk, "allows-runs", driver="runs", per_string=2, kinds=["allows", "ctx"], seed_offset=3)
    long_run(chk, profiles=["UCP", "OPQ"], ops=["prepare"], ctx=True, max_bytes=3000, name="long-ctx")
    l3_run(chk, "allows-pairs", driver="ctxpairs")
    l3_run(chk, "allows-limits", driver="ctxlimits")
    l3_run(chk, "allows", strings=600 if q else 8000, per_string=2, kinds=["allows"])
    chk.cov["exhaustive"] = True
    chk.cov["rule"] = ("user-supplied classes: every assignment of the 7 property values to %d free multi-byte symbols x every label of "
                       "length <= 4 over them and the fixed symbols ZWJ/virama/middle dot/l, through a harness-defined class using the "
                       "DEFAULT allows(); standard classes: every label <= %d over 12 roles covering every derived-property value and <= %d "
                       "over contextual characters; TLC checks loop = declarative, accept-iff, first-offender payload; all replayed with "
                       "error payload (cp, code-point position, property) compared" % (2 if q else 3, n - 1, n))


def C07(chk):
    q = chk.tier == "quick"
    n = 2 if q else 3
    insts = (0, 1) if q else (0, 1, 2)
    profs = tla_set(["UCM", "UCP", "OPQ", "NICK"])
    invs = ["ResultRule", "ViaEnforce", "Reflexive", "Symmetric", "EnforcedIsEquivalent"]
    invs_t = invs + ["Transitive"]
    generic_mc(chk, "MC_Compare", "case-width-space", ["a", "A", "FWA", "SP", "NBSP", "ypo", "TAB"], {"MaxLen": 2, "Profs": profs}, invs_t, insts,
               harness_args=["--forms"])
    generic_mc(chk, "MC_Compare", "normalization", ["e", "acute", "Eac", "angst", "rom4", "dotI", "diaer"], {"MaxLen": 2, "Profs": profs}, invs_t, insts,
               harness_args=["--forms"])
    generic_mc(chk, "MC_Compare", "case-then-nfc", ["capJ", "caron", "lowj", "jcar", "dotI", "cedil", "a"], {"MaxLen": 2, "Profs": profs}, invs_t, (0,),
               harness_args=["--forms"])
    generic_mc(chk, "MC_Compare", "latin1-compat", ["micro", "mu", "sup2", "two", "ordm", "o", "A"], {"MaxLen": 2, "Profs": profs}, invs_t, (0,),
               harness_args=["--forms"])
    generic_mc(chk, "MC_Compare", "sigma", ["Sig", "GRK", "grk", "a", "A", "SP"], {"MaxLen": n, "Profs": profs}, invs, (0,),
               harness_args=["--forms"])
    generic_mc(chk, "MC_Compare", "rtl", ["heb", "hpt", "aid", "d1", "a", "SP"], {"MaxLen": n, "Profs": profs}, invs, (0,),
               harness_args=["--forms"])
    if not q:
        generic_mc(chk, "MC_Compare", "case-width-space3", ["a", "A", "FWA", "SP", "NBSP", "ypo"], {"MaxLen": 3, "Profs": profs}, invs, (0, 1),
                   harness_args=["--forms"], timeout=3000)
        generic_mc(chk, "MC_Compare", "normalization3", ["e", "acute", "Eac", "angst", "rom4", "dotI"], {"MaxLen": 3, "Profs": profs}, invs, (0, 1),
                   harness_args=["--forms"], timeout=3000)
    # the mapping rules that define the equivalence classes of compare, per code point
    apply_l1(chk, ["wm", "lc", "osp", "nsp"], nontrivial_key="runs")
    long_run(chk, ops=["compare"], max_bytes=5000 if q else 70000, name="long-compare")
    l3_run(chk, "compare-echo", driver="echo", strings=16 if q else 120, max_len=6, seed_offset=11)
    race_run(chk, processes=40 if q else 400, long_processes=1 if q else 10, judge=False)
    l3_run(chk, "families", driver="families", strings=60 if q else 700, profiles=["UCM", "UCP", "OPQ", "NICK"])
    chk.cov["exhaustive"] = True
    chk.cov["rule"] = ("every ordered pair of strings of length <= 2 (thorough: <= 3) over alphabets mixing case/width/spacing variants, "
                       "canonically and compatibly equivalent spellings, RTL and invalid characters, all four profiles; TLC checks the "
                       "result/first-error rule, compare = equality of enforced forms (non-Nickname), reflexivity, symmetry, and "
                       "transitivity over all triples of strings <= 2; every pair replayed through Profile::compare and "
                       "PrecisFastInvocation::compare; non-trivial = pairs of different strings both accepted")


BIDI_ALL = ["AL", "AN", "B", "BN", "CS", "EN", "ES", "ET", "FSI", "L", "LRE", "LRI", "LRO", "NSM", "ON", "PDF", "PDI", "R", "RLE",
            "RLI", "RLO", "S", "WS"]
BIDI_REP = ["R", "AL", "AN", "EN", "NSM", "ES", "ON", "L", "WS"]


def C09(chk):
    q = chk.tier == "quick"
    # (1) the product automaton: labels of every length over all 23 classes
    cfg = ("SPECIFICATION Spec\nCONSTANTS\n  Classes = %s\n  Bounded = FALSE\n  MaxLen = 0\n"
           "INVARIANT ScanIsRfc\nINVARIANT FindingShape\nINVARIANT NoInteriorNoDifference\nCHECK_DEADLOCK FALSE\n" % tla_set(BIDI_ALL))
    mc = run_mc("MC_Bidi", cfg, "c09-product", workers=4)
    if mc.res.violated:
        return spec_violation(chk, mc, "MC_Bidi product")
    chk.add_tlc("MC:MC_Bidi product (all lengths, 23 classes)", mc.res)
    os.remove(mc.replay_path)
    # (2) bounded, with emission: all 23 classes short, 9 representative classes longer
    binvs = "INVARIANT ScanIsRfc\nINVARIANT FindingShape\nINVARIANT NoInteriorNoDifference\nINVARIANT MonitorIsDeclarative\nINVARIANT Emit\nCHECK_DEADLOCK FALSE\n"
    for name, classes, n, draws in (("all23", BIDI_ALL, 3, 2 if q else 4), ("rep9", BIDI_REP, 5 if q else 6, 1 if q else 3)):
        cfg = "SPECIFICATION Spec\nCONSTANTS\n  Classes = %s\n  Bounded = TRUE\n  MaxLen = %d\n" % (tla_set(classes), n) + binvs
        mc = run_mc("MC_Bidi", cfg, "c09-" + name, workers=6, timeout=3000, heap="8g")
        if mc.res.violated:
            spec_violation(chk, mc, "MC_Bidi " + name)
            continue
        replay(chk, mc, "MC_Bidi %s len<=%d draws=%d" % (name, n, draws), harness_args=["--draws", str(draws)], classify=classify_std,
               need_oracle=True)
    profiles_mc(chk, "bidi-framed", ["heb", "arab", "aid", "d1", "hpt", "dot", "a"], 0, ["UCM", "UCP"], ["directionality_rule", "enforce"], (0,),
                invariants=["Agree"], frame=(8, 3, 1, ("a", "heb", "eac")) if q else (9, 5, 2, ("a", "heb", "eac", "hpt")))
    apply_l1(chk, ["bidi"], nontrivial_key="bidi_nonL")
    l3_run(chk, "directionality", strings=1200 if q else 8000, per_string=3, kinds=["directionality_rule", "directionality_rule", "enforce"], profiles=["UCM", "UCP"])
    chk.cov["rule"] = ("product of the RFC 5893 monitor and the scans over all 23 classes: labels of EVERY length (finite model, exhaustive); "
                       "bounded: every class sequence of length <= 3 over 23 classes and <= %d over 9 representative classes, each instantiated "
                       "with code points assigned in 16.0.0 (first member and seeded random members of the class) and sent through "
                       "directionality_rule of both username profiles; L1: observable bidi group of every code point against UnicodeData 16.0.0; "
                       "non-trivial = RTL class sequences" % (5 if q else 6))
    chk.assumptions += ["L and the classes outside the rule's vocabulary (B, S, WS, explicit formatting) are not distinguishable through the rule"]


def C08(chk):
    q = chk.tier == "quick"
    n = 3 if q else 4
    insts = (0, 1) if q else (0, 1, 2, 3)
    allp = ["UCM", "UCP", "OPQ", "NICK"]
    invs = ["Agree", "OutputClean", "NoDrift", "FixedPoint"]
    profiles_mc(chk, "closure-cased", ["A", "Eac", "dotI", "ypo", "angst", "e", "acute", "GRK", "Sig"], n, allp, ["enforce"], insts, invariants=invs)
    profiles_mc(chk, "closure-marks", ["capJ", "caron", "dotI", "cedil", "acute", "capH", "macronb", "a"], n, ["UCM", "UCP", "NICK"], ["enforce"], insts, invariants=invs)
    profiles_mc(chk, "closure-marks2", ["e", "acute", "vlb", "tone", "cedil", "grk", "A"], n + 1 if q else n, allp, ["enforce"], (0,), invariants=invs)
    profiles_mc(chk, "closure-compat", ["rom4", "hcj", "diaer", "FWA", "ISP", "NBSP", "a", "acute", "SP"], n, allp, ["enforce"], insts, invariants=invs)
    # the invariant really depends on the closure assumptions: with a character whose lowercase image is
    # UNASSIGNED in the universe (role cher) TLC must find OutputClean violated
    import shutil
    import universe
    upath, chosen, u = universe.generate(["a", "cher"], 0, chk.seed, tag="c08-cher")
    cfg = ('SPECIFICATION Spec\nCONSTANTS\n  MaxLen = 2\n  Profs = {"UCM"}\n  Ops = {"enforce"}\n  FirstSyms = {}\n  FrameOn = FALSE\n  FI = 0\n  FJ = 0\n  FK = 0\n  Fillers = {}\n'
           "INVARIANT OutputClean\nVIEW View\nCHECK_DEADLOCK FALSE\n")
    mc = run_mc("MC_Profiles", cfg, "c08-cher", workers=2, extra_files=[upath], expect_violation="OutputClean")
    shutil.rmtree(os.path.dirname(upath), ignore_errors=True)
    if os.path.exists(mc.replay_path):
        os.remove(mc.replay_path)
    if mc.res.violated != "OutputClean":
        tool_error("vacuity guard: OutputClean is not violated by a universe that breaks the lowercase closure assumption")
    chk.add_tlc("MC:closure assumption is necessary (role cher: OutputClean violated, as it must be)", mc.res)
    # exhaustive singles (+ pairs in the thorough tier) through the real enforce
    out, t = run_harness(["c08sweep", "--oracle", ensure_oracle(), "--seed", str(chk.seed)] + (["--pairs-small"] if q else ["--pairs"]))
    summary = None
    n_kf = 0
    for line in nl_lines(out):
        d = json.loads(line)
        if "summary" in d:
            summary = d["summary"]
        elif "problem" in d:
            m = dict(d["problem"], k="c08")
            fid = classify_std(m)
            if fid:
                chk.known_finding(fid)
                n_kf += 1
            else:
                chk.violation("enforce output violates C08: %s" % json.dumps(m, sort_keys=True)[:500], {"layer": "sweep", "case": m})
    if summary is None:
        tool_error("c08sweep gave no summary")
    if summary["problems"] >= 500000:
        chk.violation("c08sweep: problem list overflowed", {"layer": "sweep", "summary": summary})
    chk.add_part("sweep", dict(summary, known=n_kf, wall_s=round(t, 1)))
    chk.cov["evaluations"] += summary["enforce_calls"]
    chk.cov["distinct_nontrivial"] += summary["changed"]
    chk.sample({"layer": "sweep", "summary": summary})
    l3_run(chk, "enforce-limits", driver="limits", per_string=2, kinds=["enforce"], profiles=allp, seed_offset=5)
    l3_run(chk, "enforce-expanders", driver="expanders", per_string=2, kinds=["enforce"], profiles=allp, seed_offset=4)
    l3_run(chk, "enforce-marks", driver="marks", per_string=2, kinds=["enforce", "normalization_rule"], profiles=allp, seed_offset=6)
    long_run(chk, profiles=allp, ops=["enforce"])
    l3_run(chk, "enforce-echo", driver="echo", strings=24 if q else 200, profiles=allp, max_len=6, seed_offset=11)
    race_run(chk, processes=40 if q else 400, long_processes=1 if q else 10, judge=False)
    info = l3_run(chk, "enforce-all", strings=600 if q else 8000, per_string=3, kinds=["enforce"], profiles=allp)
    chk.cov["rule"] = ("model: OutputClean and NoDrift on every enforce behaviour over alphabets of cased / decomposable / compatibility "
                       "characters (strings <= %d, 4 profiles), plus a configuration showing the invariant depends on the closure "
                       "assumption; real code: every scalar value alone%s through enforce of all four profiles, each successful result "
                       "re-classified with the profile's class and enforced again; random real strings (L3) likewise; non-trivial = "
                       "accepted inputs that enforce changed" % (n, "" if q else " and ~76k pairs (all canonical composition pairs, valid cased x marks, compat x space/mark)"))


def C01(chk):
    q = chk.tier == "quick"
    n = 3 if q else 4
    allp = ["UCM", "UCP", "OPQ", "NICK"]
    ops = ["prepare", "enforce", "width_mapping_rule", "additional_mapping_rule", "case_mapping_rule", "normalization_rule", "directionality_rule"]
    profiles_mc(chk, "bytes", ["a", "eac", "han", "emo", "SP", "NBSP", "OGH", "A"], n, allp, ops, (0, 1), invariants=["Agree", "MappingsAgree", "AllowsAgree"])
    profiles_mc(chk, "bytes-framed", ["a", "eac", "han", "emo", "SP", "NBSP", "heb", "A", "FWA"], 0, allp, ["prepare", "enforce"], (0,),
                invariants=["Agree", "MappingsAgree"], frame=(9, 2, 1, ("a", "eac")) if q else (9, 4, 2, ("a", "eac", "han")))
    import shutil
    deep_scratch = os.path.join(CACHE, "c01deep-%d" % os.getpid())
    try:
        out, t = run_harness(["c01sweep", "--oracle", ensure_oracle(), "--seed", str(chk.seed), "--max-len", "4" if q else "6",
                              "--random", "20000" if q else "300000", "--scratch", deep_scratch])
    finally:
        shutil.rmtree(deep_scratch, ignore_errors=True)
    summary = None
    for line in nl_lines(out):
        d = json.loads(line)
        if "summary" in d:
            summary = d["summary"]
        elif "panic" in d:
            chk.violation("panic in a public operation: %s" % json.dumps(d["panic"], sort_keys=True)[:500], {"layer": "sweep", "case": d["panic"]})
    if summary is None:
        tool_error("c01sweep gave no summary")
    chk.add_part("sweep", dict(summary, wall_s=round(t, 1)))
    chk.cov["evaluations"] += summary["calls"]
    chk.cov["distinct_nontrivial"] += summary["strings"]
    chk.sample({"layer": "sweep", "summary": summary})
    r = apply_l1(chk, [], full32=not q)
    for pe in r["panics"][:5]:
        chk.violation("panic while classifying / probing code points U+%04X..U+%04X" % (pe.get("lo", 0), pe.get("hi", 0)), {"layer": "L1", "event": pe})
    l3_run(chk, "all-ops-runs", driver="runs", per_string=3, seed_offset=3)
    l3_run(chk, "all-ops-expanders", driver="expanders", per_string=2, kinds=["enforce", "normalization_rule", "case_mapping_rule"], seed_offset=4)
    long_run(chk)
    l3_run(chk, "all-ops", strings=700 if q else 8000, per_string=5, max_len=12)
    chk.cov["rule"] = ("every string of length <= %s over an 11-symbol alphabet (1/2/3/4-byte characters, ASCII / 2-byte / 3-byte spaces, cased, "
                       "width-mapped, combining mark, ZWJ) and %s random UTF-8 strings (length <= 64, all planes) through EVERY public operation "
                       "(7 rule/profile operations + 2 compares x 4 profiles, allows of both classes, 8 context rules at every position "
                       "0..len+2 and at usize::MAX, usize::MAX-1, 2^63, 2^32+1), all under catch_unwind; classification of every scalar value "
                       "(thorough: all 2^32 values); the specification has no panic result, so a panic is also an unexplained event in every "
                       "replay and trace; model: slices on character boundaries (MappingsAgree) for strings <= %d" % ("4" if q else "6", "20k" if q else "300k", n))


def plain_mc(chk, module, name, cfg, workers=4, timeout=2400, env=None):
    mc = run_mc(module, cfg, name, workers=workers, timeout=timeout, heap="8g")
    if mc.res.violated:
        spec_violation(chk, mc, name)
        return None
    return mc


def replay_as_notes(chk, mc, name):
    """behaviour beyond the listed properties: replayed like any other configuration, but a disagreement is recorded as a
    note in the evidence and never raises the property's alarm"""
    from mc import _replay_guarded
    args = ["replay", "--in", mc.replay_path, "--seed", str(chk.seed)]
    out, t, crashed = _replay_guarded(chk, args, mc.replay_path, name)
    summary, mism = None, []
    for line in nl_lines(out):
        if not line.startswith("{"):
            continue
        d = json.loads(line)
        if "summary" in d:
            summary = d["summary"]
        elif "mismatch" in d:
            mism.append(d["mismatch"])
    if summary is None or summary["n"] + crashed != mc.n_replay:
        tool_error("replay of %s incomplete" % name)
    if summary["nontrivial"] == 0:
        tool_error("vacuity guard: %s has no non-trivial behaviour" % name)
    for m in mism[:5]:
        chk.notes.append("beyond the listed properties, %s: the real code disagrees with the specification: %s" % (name, json.dumps(m, sort_keys=True)[:400]))
    chk.add_tlc("MC:" + name, mc.res, {"behaviours_replayed": summary["n"], "executions_in_real_code": summary["executions"],
                                       "mismatches_recorded_as_notes": summary["mismatches"], "replay_s": round(t, 1)})
    chk.cov["traces_validated_against_impl"] += summary["n"]
    chk.cov["evaluations"] += summary["executions"]
    if os.path.exists(mc.replay_path):
        os.remove(mc.replay_path)


def C15(chk):
    q = chk.tier == "quick"
    m = 6 if q else 7
    cfg = ("SPECIFICATION Spec\nCONSTANTS\n  M = %d\n  NV = 3\n  WfOnly = TRUE\nINVARIANT NoSpuriousError\nINVARIANT SetTablesFaithful\n"
           "INVARIANT UnassignedFaithful\nINVARIANT UnassignedExact\nINVARIANT BidiFaithful\nINVARIANT WidthFaithful\nINVARIANT Emit\nCHECK_DEADLOCK FALSE\n" % m)
    mc = plain_mc(chk, "MC_TableGen", "c15-m%d" % m, cfg, workers=6, timeout=3000)
    if mc:
        scratch = os.path.join(CACHE, "pvh-gen-%d" % os.getpid())
        os.environ["PVH_SCRATCH"] = scratch
        try:
            replay(chk, mc, "MC_TableGen(M=%d, 3 attribute values) x 4 bases" % m)
        finally:
            import shutil
            shutil.rmtree(scratch, ignore_errors=True)
    scratch = os.path.join(CACHE, "pvh-gen-%d" % os.getpid())
    os.environ["PVH_SCRATCH"] = scratch
    try:
        # malformed First/Last structure: rejecting transitions of the folding
        cfg = ("SPECIFICATION Spec\nCONSTANTS\n  M = %d\n  NV = 2\n  WfOnly = FALSE\nINVARIANT FoldErrorIsJustified\n"
               "INVARIANT EveryMalformationIsRejected\nINVARIANT EmitErr\nINVARIANT EmitDangling\nCHECK_DEADLOCK FALSE\n" % (5 if q else 6))
        mc = plain_mc(chk, "MC_TableGen", "c15-malformed", cfg, workers=4)
        if mc:
            replay(chk, mc, "MC_TableGen malformed First/Last structure")
        # property-file generators (Scripts / joining types / property sets): lines in any order
        if q:
            # four lines over four code points: a value that comes back after every tracked value has had a block of its own
            cfg4 = ("SPECIFICATION Spec\nCONSTANTS\n  M = 4\n  MaxLines = 4\nINVARIANT Faithful\nINVARIANT Merged\nINVARIANT Emit\nCHECK_DEADLOCK FALSE\n")
            mc4 = plain_mc(chk, "MC_PropFile", "c15-propfile4", cfg4, workers=4)
            if mc4:
                replay(chk, mc4, "MC_PropFile (4 lines over 4 code points) x 4 bases x 5 formats")
        cfg = ("SPECIFICATION Spec\nCONSTANTS\n  M = %d\n  MaxLines = %d\nINVARIANT Faithful\nINVARIANT Merged\nINVARIANT Emit\nCHECK_DEADLOCK FALSE\n"
               % ((5, 3) if q else (6, 4)))
        mc = plain_mc(chk, "MC_PropFile", "c15-propfile", cfg, workers=4)
        if mc:
            replay(chk, mc, "MC_PropFile (UnicodeGen<Script> + UcdTableGen) x 4 bases")
        # beyond the listed properties: the UNICODE_VERSION generator against Version.tla (disagreements are notes, not C15 violations)
        cfgv = "SPECIFICATION Spec\nCONSTANTS\n  MaxLen = %d\nINVARIANT Laws\nINVARIANT Emit\nCHECK_DEADLOCK FALSE\n" % (5 if q else 6)
        mcv = plain_mc(chk, "MC_Version", "c15-version", cfgv, workers=4)
        # vacuity guard: a digit standing where the dot is expected IS reachable in the model (the reading that makes the
        # permissive dots matter); TLC must find it
        gv = run_mc("MC_Version", "SPECIFICATION Spec\nCONSTANTS\n  MaxLen = 5\nINVARIANT NoDigitSeparator\nCHECK_DEADLOCK FALSE\n", "c15-version-vac",
                    workers=2, expect_violation="NoDigitSeparator")
        if os.path.exists(gv.replay_path):
            os.remove(gv.replay_path)
        if not gv.res.violated:
            tool_error("vacuity guard: no text of the model is read with a digit as separator")
        if mcv:
            replay_as_notes(chk, mcv, "MC_Version (every text over 6 characters up to length %d) x 3 surroundings" % (5 if q else 6))
    finally:
        import shutil
        shutil.rmtree(scratch, ignore_errors=True)
    # variations of the real data through the real build (generators -> tables -> look-ups), whatever the table layout
    if not q or os.environ.get("VERIF_VARIATIONS"):
        import perturb
        from l1 import TOOL_FIELDS
        for k in range(2):
            res, changes = perturb.run_variation(chk, chk.seed * 100 + k)
            if not res["tiled"]:
                tool_error("variation: runs do not tile the code space")
            nbad = 0
            for b in res["bad"]:
                if set(b["fields"]) & TOOL_FIELDS:
                    tool_error("variation: oracle/spec inconsistency %s" % b["fields"])
                nbad += 1
                if nbad <= 5:
                    e = b["event"]
                    chk.violation("variation %d of the UCD data (%d changes): tables built by the real generators disagree with the varied data on "
                                  "U+%04X..U+%04X: %s" % (k, changes, e["lo"], e["hi"], ",".join(b["fields"])),
                                  {"layer": "L1-variation", "variation_seed": chk.seed * 100 + k, "fields": b["fields"], "event": e})
            chk.cov["states"] += res["tlc"]["distinct"]
            chk.cov["transitions"] += res["tlc"]["generated"]
            chk.cov["traces_validated_against_impl"] += 1
            chk.cov["evaluations"] += res["info"]["events"]
            chk.add_part("L1 on variation %d" % k, {"changes_to_the_ucd_files": changes, "events": res["info"]["events"], "mismatching_events": len(res["bad"]),
                                                    "stats": res["stats"]})
    # the pinned data sets through the real generators are covered by L1 (every code point of every generated table)
    apply_l1(chk, ["id", "ff", "vir", "greek", "hebrew", "kana", "ld", "rd", "wm", "osp", "bidi"], nontrivial_key="runs")
    chk.cov["exhaustive"] = True
    chk.cov["rule"] = ("every well-formed UnicodeData-like input over a universe of %d code points and 3 attribute values (any subset of "
                       "assigned code points, any placement of First/Last ranges next to single entries, any run structure), built line by "
                       "line; the generator machines (First/Last folding, set + run merge, unassigned gaps with the range register, bidi run "
                       "compression, width mapping) step per line and TLC checks at every complete input that each table denotes exactly "
                       "what the input assigns, is searchable by binary search and single-valued; every input is rendered as a real "
                       "UnicodeData.txt at 4 bases (0, 0x640, 0xFFFA across the BMP boundary, 0x10FF00), run through the real precis_tools "
                       "generators, the emitted Rust source parsed into Codepoints entries and searched with the library's own expression; "
                       "the pinned 6.3.0 / 16.0.0 files: L1 compares every code point of every table with the oracle; non-trivial = inputs with a First/Last range" % m)
    chk.assumptions += ["well-formed = sorted, First/Last paired with equal attributes, no code point listed twice; U+10FFFF itself is never listed",
                        "the unassigned table omits the gap after the last listed code point (named deviation; invisible on any real UnicodeData, which lists U+10FFFD)"]


def C17(chk):
    q = chk.tier == "quick"
    rows = 2 if q else 3
    cfg = ("SPECIFICATION Spec\nCONSTANTS\n  MaxRows = %d\nINVARIANT OneItemPerDataLine\nINVARIANT LineNumbers\nINVARIANT UndecodableLinesReported\n"
           "INVARIANT RoundTrip\nINVARIANT CorruptionsRejected\nINVARIANT Emit\nCHECK_DEADLOCK FALSE\n" % rows)
    mc = plain_mc(chk, "MC_Csv", "c17", cfg)
    scratch = os.path.join(CACHE, "pvh-csv-%d" % os.getpid())
    os.environ["PVH_SCRATCH"] = scratch
    try:
        if mc:
            replay(chk, mc, "MC_Csv(header + <= %d rows)" % rows)
        pass
    finally:
        import shutil
        shutil.rmtree(scratch, ignore_errors=True)
    from l3 import csv_trace_run
    csv_trace_run(chk, rows=20000 if q else 300000)
    if not q:
        import selftest
        chk.notes.append("binding self-test: " + selftest.selftest_csv())
    chk.cov["exhaustive"] = True
    chk.cov["rule"] = ("model: every file of a header (3 shapes, skipped whatever it contains) and <= %d rows from a catalogue of 4x4x5 "
                       "well-formed row shapes (single / range / U+10FFFF, single property / ordered pair, descriptions with 0-2 commas "
                       "and with ' or ') and 23 corruptions (deleted / emptied field, unknown or dangling property, extra ' or X', blank "
                       "around a name, non-hex / too large / half-open / triple code point field, empty line), LF and CRLF and no final "
                       "terminator; TLC checks round trip, rejection, one item per data line in file order, errors numbered by physical "
                       "line; every file written out and read through CsvLineParser::from_path and every row through "
                       "PrecisDerivedProperty::from_str; plus %s random rows over all code points / ranges, all 7 names and 49 ordered "
                       "pairs, random descriptions, and their corruptions; plus the shipped registry file re-read against our own parse" % (rows, "20k" if q else "300k"))
    chk.assumptions += ["malformed code points are limited to unambiguous ones (non-hex character, empty, > 10FFFF, missing range side); sign prefixes and lower-case hex are not asserted either way"]


def C16(chk):
    q = chk.tier == "quick"
    # (1) design: the session machine
    for name, threads, calls in (("3x1", "{t1, t2, t3}", 1), ("2x2", "{t1, t2}", 2)) + (() if q else (("3x2", "{t1, t2, t3}", 2),)):
        cfg = ('SPECIFICATION Spec\nCONSTANTS\n  Threads = %s\n  ProfilesC = {"UCM", "NICK"}\n  Inputs = {"x", "y"}\n'
               '  Forms = {"static", "inst", "long"}\n  MaxCalls = %d\n  SemOf <- MCSem\n'
               "INVARIANT ResultsDependOnlyOnArguments\nINVARIANT SameCallSameResult\nINVARIANT OneInitializer\nINVARIANT InitializerOwnsCell\n"
               "INVARIANT StaticOnlyWhenReady\nPROPERTY ReadyIsStable\nPROPERTY EveryCallReturns\nVIEW View\nCHECK_DEADLOCK FALSE\n" % (threads, calls))
        mc = plain_mc(chk, "MC_Precis", "c16-" + name, cfg, workers=4, timeout=3000)
        if mc:
            chk.add_tlc("MC:MC_Precis " + name, mc.res)
            os.remove(mc.replay_path)
    # (2) API forms x argument kinds on every string of model alphabets (special-casing sensitive characters included)
    n = 3 if q else 4
    insts = (0,) if q else (0, 1, 2)
    allp = ["UCM", "UCP", "OPQ", "NICK"]
    profiles_mc(chk, "forms-case", ["a", "A", "Sig", "GRK", "grk", "FWA", "SP", "dotI"], n, allp, ["prepare", "enforce"], insts, invariants=["Agree"], forms=True)
    profiles_mc(chk, "forms-nfc", ["e", "acute", "Eac", "NBSP", "rom4", "heb", "d1", "aid", "diaer", "hcj"], n, allp, ["prepare", "enforce"], insts, invariants=["Agree"], forms=True)
    generic_mc(chk, "MC_Compare", "forms-compare", ["a", "A", "SP", "TAB", "unas", "FWA"], {"MaxLen": 2, "Profs": tla_set(allp)},
               ["ResultRule", "Symmetric"], (0,), harness_args=["--forms"])
    # (2b) history independence of classification: every scalar value in six different call orders and on 8 threads
    import shutil
    scratch = os.path.join(CACHE, "ordersweep-%d" % os.getpid())
    try:
        out, t = run_harness(["ordersweep", "--seed", str(chk.seed), "--scratch", scratch, "--lockstep", "3" if q else "30"])
    finally:
        shutil.rmtree(scratch, ignore_errors=True)
    osum = None
    for line in nl_lines(out):
        d = json.loads(line)
        if "summary" in d:
            osum = d["summary"]
        elif "problem" in d:
            chk.violation("classification depends on the calls made before: %s" % json.dumps(d["problem"], sort_keys=True)[:400],
                          {"layer": "sweep", "case": d["problem"]})
    if osum is None:
        tool_error("ordersweep gave no summary")
    chk.add_part("order sweep", dict(osum, wall_s=round(t, 1)))
    chk.cov["evaluations"] += osum["calls"]
    # (3) multi-threaded sessions in fresh processes, racing on the first use of the statics
    from l3 import session_run
    session_run(chk, processes=6 if q else 60, threads=8, calls=40 if q else 60)
    # (3b) volume: concurrent results against the sequential reference, first use racing in every fresh process
    from l3 import race_run
    race_run(chk, processes=160 if q else 1600, long_processes=4 if q else 40)
    l3_run(chk, "echo", driver="echo", strings=40 if q else 400, max_len=6, seed_offset=11)
    # (4) single-threaded histories: several different calls on the same string in a row
    l3_run(chk, "histories", strings=1000 if q else 6000, per_string=6, max_len=6)
    chk.cov["rule"] = ("design: the session machine (threads x Once cells of the lazy statics x API forms), every interleaving of 3 threads x 1 "
                       "call and 2 threads x 2 calls (thorough: 3 x 2), safety + every call returns; code: every string <= %d over two alphabets "
                       "(incl. final-sigma and dotted-I contexts) through static / long-lived / fresh instance x &str / String / Cow::Borrowed / "
                       "Cow::Owned, all must equal the reference call; %d fresh processes x 8 threads released by a barrier whose first call "
                       "races on the same static profile, results judged by TLC against Sem and required equal for equal calls across "
                       "threads, forms, argument kinds, processes and histories (memo in Trace_Api.tla); %d more fresh processes x 16 threads whose first "
                       "calls race on labels of different scripts / mapping paths, every concurrent result compared with the sequential "
                       "reference (whose inputs TLC judges in trace 'race-inputs')" % (n, 6 if q else 60, 124 if q else 1540))


PROPS = {"C15": C15, "C16": C16, "C17": C17, "C01": C01, "C08": C08, "C02": C02, "C03": C03, "C07": C07, "C09": C09, "C04": C04, "C05": C05, "C06": C06, "C10": C10, "C11": C11, "C12": C12, "C13": C13, "C14": C14, "C18": C18}
