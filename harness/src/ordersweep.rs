//! C16: results do not depend on which calls were made before.  Classification of every scalar value
//! (both classes, both entry points) is repeated in several ORDERS on one thread and on several
//! threads; each answer is compared with the baseline of the plain ascending sweep.  A cache or
//! memo keyed on partial information (truncated code point, last character, ...) shows up as a
//! difference in one of the orders.

use crate::api::*;
use crate::util::*;
use serde_json::json;

fn classify(cp: u32) -> [&'static str; 4] {
    let c = char::from_u32(cp);
    [
        class_value_g("Id", cp),
        class_value_g("Ff", cp),
        c.map(|c| class_value_char("Id", c)).unwrap_or("-"),
        c.map(|c| class_value_char("Ff", c)).unwrap_or("-"),
    ]
}

/// one lookup through one entry point
fn one(entry: usize, cp: u32) -> &'static str {
    match entry {
        0 => class_value_g("Id", cp),
        1 => class_value_g("Ff", cp),
        2 => char::from_u32(cp).map(|c| class_value_char("Id", c)).unwrap_or("-"),
        _ => char::from_u32(cp).map(|c| class_value_char("Ff", c)).unwrap_or("-"),
    }
}

pub fn main(args: &[String]) {
    silence_panics();
    let seed = arg_u64(args, "--seed", 1);
    let n: u32 = 0x110000;
    let baseline: Vec<[&'static str; 4]> = (0..n).map(classify).collect();
    let mut problems = Vec::new();
    let mut calls = 0u64;
    let mut check = |order: &str, cp: u32, problems: &mut Vec<serde_json::Value>| {
        let got = classify(cp);
        if got != baseline[cp as usize] && problems.len() < 50 {
            problems.push(json!({"order": order, "cp": cp, "baseline": baseline[cp as usize], "got": got}));
        }
    };
    // descending
    for cp in (0..n).rev() {
        check("descending", cp, &mut problems);
        calls += 4;
    }
    // plane-interleaved: consecutive calls differ by a multiple of 0x10000
    for low in 0..0x10000u32 {
        for plane in 0..17u32 {
            check("stride 0x10000", (plane << 16) | low, &mut problems);
            calls += 4;
        }
    }
    // stride 0x100 and 0x1000
    for stride in [0x100u32, 0x1000] {
        for off in 0..stride {
            let mut cp = off;
            while cp < n {
                check(if stride == 0x100 { "stride 0x100" } else { "stride 0x1000" }, cp, &mut problems);
                calls += 4;
                cp += stride;
            }
        }
    }
    // the same code point twice in a row with the classes alternating, and a seeded random order
    let mut rng = Rng::new(seed);
    for _ in 0..2_000_000u32 {
        let cp = rng.below(n as u64) as u32;
        check("random", cp, &mut problems);
        calls += 4;
    }
    // ONE lookup per visit (the orders above make four per code point, which hides state that flips with every
    // lookup): each entry point alone ascending, then seeded random (entry, code point) pairs, then a code point asked
    // once or three times through one entry followed by other code points through another
    for e in 0..4usize {
        for cp in 0..n {
            let got = one(e, cp);
            calls += 1;
            if got != baseline[cp as usize][e] && problems.len() < 50 {
                problems.push(json!({"order": "single entry ascending", "entry": e, "cp": cp, "baseline": baseline[cp as usize][e], "got": got}));
            }
        }
    }
    for _ in 0..4_000_000u32 {
        let cp = rng.below(n as u64) as u32;
        let e = rng.below(4) as usize;
        let got = one(e, cp);
        calls += 1;
        if got != baseline[cp as usize][e] && problems.len() < 50 {
            problems.push(json!({"order": "single random", "entry": e, "cp": cp, "baseline": baseline[cp as usize][e], "got": got}));
        }
    }
    for i in 0..1_000_000u32 {
        let cp = if i % 2 == 0 { rng.below(0x3400) as u32 } else { rng.below(n as u64) as u32 };
        let e = rng.below(4) as usize;
        for _ in 0..(1 + 2 * rng.below(2)) {
            let _ = one(e, cp);
            calls += 1;
        }
        for d in [1u32, 0x61, 0x4e00, 0xe000, 0x2028] {
            let q = if d == 1 { (cp + 1) % n } else { d };
            let e2 = rng.below(4) as usize;
            let got = one(e2, q);
            calls += 1;
            if got != baseline[q as usize][e2] && problems.len() < 50 {
                problems.push(json!({"order": "after odd repeats", "prev": cp, "entry": e2, "cp": q, "baseline": baseline[q as usize][e2], "got": got}));
            }
        }
    }
    // values above U+10FFFF that alias a real code point when high bits are truncated: asked right after the
    // code point itself; they are not scalar values, so both classes must answer DISALLOWED
    let mut alias_calls = 0u64;
    for cp in 0..n {
        for off in [0x0011_0000u32, 0x0020_0000, 0x0100_0000, 0x8000_0000, 0xFF00_0000, 0xFFE0_0000] {
            let v = cp.wrapping_add(off);
            if v < n {
                continue;
            }
            // the real code point is (re-)asked immediately before each of its aliases
            let _ = classify(cp);
            alias_calls += 1;
            let got = [class_value_g("Id", v), class_value_g("Ff", v)];
            if got != ["DISALLOWED", "DISALLOWED"] && problems.len() < 50 {
                problems.push(json!({"order": "alias above U+10FFFF", "cp": cp, "value": v, "got": got}));
            }
        }
    }
    calls += alias_calls * 2;
    // several threads classifying concurrently in different orders
    let base = std::sync::Arc::new(baseline);
    let mut hs = Vec::new();
    for t in 0..8u32 {
        let base = base.clone();
        hs.push(std::thread::spawn(move || {
            silence_panics();
            let mut bad = Vec::new();
            let mut cp = (t * 7919) % n;
            for _ in 0..n {
                let got = classify(cp);
                if got != base[cp as usize] && bad.len() < 10 {
                    bad.push(json!({"order": format!("thread {} stride", t), "cp": cp, "baseline": base[cp as usize], "got": got}));
                }
                cp = (cp + 0x10000 + t * 2 + 1) % n;
            }
            bad
        }));
    }
    for h in hs {
        problems.extend(h.join().unwrap_or_else(|_| tool_error("ordersweep thread died")));
        calls += 4 * n as u64;
    }
    for p in problems.iter() {
        println!("{}", json!({ "problem": p }));
    }
    println!("{}", json!({"summary": {"calls": calls, "orders": 10, "problems": problems.len()}}));
}
