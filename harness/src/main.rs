//! pvh - the conformance harness binding the TLA+ specification in /verif/spec to the
//! real sancane/precis crates (path dependencies on the repository's working tree).

mod api;
mod c01;
mod c08;
mod csvfuzz;
mod l1;
mod long;
mod oracle;
mod ordersweep;
mod race;
mod record;
mod replay;
mod replay_csv;
mod replay_gen;
mod replay_str;
mod session;
mod universe;
mod util;

fn main() {
    let args: Vec<String> = std::env::args().collect();
    if args.len() < 2 {
        util::tool_error("usage: pvh <subcommand> ...");
    }
    let rest = &args[2..];
    match args[1].as_str() {
        "l1" => l1::main(rest),
        "replay" => replay::main(rest),
        "record" => record::main(rest),
        "reexec" => record::reexec(rest),
        "c08sweep" => c08::main(rest),
        "c01sweep" => c01::main(rest),
        "session" => session::main(rest),
        "ordersweep" => ordersweep::main(rest),
        "race" => race::main(rest),
        "long" => long::main(rest),
        "csvfuzz" => csvfuzz::main(rest),
        "universe" => universe::main(rest),
        "version" => println!("{:?} {:?}", precis_core::UNICODE_VERSION, precis_profiles::UNICODE_VERSION),
        other => util::tool_error(&format!("unknown subcommand {}", other)),
    }
}
