----------------------------- MODULE Codepoints -----------------------------
(***************************************************************************)
(* precis_core::Codepoints against u32                                     *)
(* (precis-tools/src/generators/codepoints.template) and the binary search *)
(* the library performs over tables of entries                             *)
(* (precis-core/src/common.rs:9-27, precis-profiles/src/bidi.rs:5-12,      *)
(* usernames.rs:12-17, common.rs:10-15).                                   *)
(*                                                                         *)
(* An entry is [k |-> "S", c |-> cp] or [k |-> "R", s |-> start, e |-> end] *)
(***************************************************************************)
EXTENDS Base

Single(c)   == [k |-> "S", c |-> c]
Range(s, e) == [k |-> "R", s |-> s, e |-> e]
Lo(x) == IF x.k = "S" THEN x.c ELSE x.s
Hi(x) == IF x.k = "S" THEN x.c ELSE x.e
WellFormed(x) == Lo(x) <= Hi(x)

\* what an entry denotes
Contains(x, cp) == Lo(x) <= cp /\ cp <= Hi(x)

\* ---- the hand-written operators, entry on the left (impl PartialOrd<u32> for Codepoints)
EqE(x, cp) == IF x.k = "S" THEN x.c = cp ELSE (x.s <= cp /\ cp <= x.e)        \* r.contains(other)
LtE(x, cp) == IF x.k = "S" THEN x.c < cp  ELSE x.e < cp
LeE(x, cp) == IF x.k = "S" THEN x.c <= cp ELSE x.s <= cp
GtE(x, cp) == IF x.k = "S" THEN x.c > cp  ELSE x.s > cp
GeE(x, cp) == IF x.k = "S" THEN x.c >= cp ELSE x.e >= cp
CmpE(x, cp) == IF LtE(x, cp) THEN "Less" ELSE IF GtE(x, cp) THEN "Greater" ELSE "Equal"

\* ---- mirrored, code point on the left (impl PartialOrd<Codepoints> for u32)
EqC(cp, x) == EqE(x, cp)
LtC(cp, x) == IF x.k = "S" THEN cp < x.c  ELSE cp < x.s
LeC(cp, x) == IF x.k = "S" THEN cp <= x.c ELSE cp <= x.e
GtC(cp, x) == IF x.k = "S" THEN cp > x.c  ELSE cp > x.e
GeC(cp, x) == IF x.k = "S" THEN cp >= x.c ELSE cp >= x.s
CmpC(cp, x) == IF x.k = "S" THEN (IF cp < x.c THEN "Less" ELSE IF cp > x.c THEN "Greater" ELSE "Equal")
               ELSE IF cp < x.s THEN "Less" ELSE IF cp > x.e THEN "Greater" ELSE "Equal"

Flip(o) == IF o = "Less" THEN "Greater" ELSE IF o = "Greater" THEN "Less" ELSE "Equal"

\* ---- the properties of C18 for one entry and one code point ------------------
Trichotomy(x, cp) ==
  /\ (LtE(x, cp) \/ EqE(x, cp) \/ GtE(x, cp))
  /\ ~(LtE(x, cp) /\ EqE(x, cp)) /\ ~(LtE(x, cp) /\ GtE(x, cp)) /\ ~(EqE(x, cp) /\ GtE(x, cp))
Coherent(x, cp) ==
  /\ EqE(x, cp) = Contains(x, cp)
  /\ LtE(x, cp) = (Hi(x) < cp)
  /\ GtE(x, cp) = (Lo(x) > cp)
  /\ (CmpE(x, cp) = "Less") = LtE(x, cp)
  /\ (CmpE(x, cp) = "Greater") = GtE(x, cp)
  /\ (CmpE(x, cp) = "Equal") = EqE(x, cp)
  /\ LeE(x, cp) = (LtE(x, cp) \/ EqE(x, cp))
  /\ GeE(x, cp) = (GtE(x, cp) \/ EqE(x, cp))
Mirrored(x, cp) ==
  /\ EqC(cp, x) = EqE(x, cp)
  /\ LtC(cp, x) = GtE(x, cp)
  /\ GtC(cp, x) = LtE(x, cp)
  /\ LeC(cp, x) = GeE(x, cp)
  /\ GeC(cp, x) = LeE(x, cp)
  /\ CmpC(cp, x) = Flip(CmpE(x, cp))

\* ---- tables --------------------------------------------------------------------
\* a table the generators may emit: entries in increasing order, pairwise disjoint
Sorted(t) == \A i \in 1..(Len(t) - 1) : Hi(t[i]) < Lo(t[i + 1])
Denotes(t) == {cp \in 0..1200000 : \E i \in 1..Len(t) : Contains(t[i], cp)}

\* binary search with comparator  |x| x.partial_cmp(&cp)  as a lo/hi/mid loop
\* (slice::binary_search_by); returns the index found (1-based) or 0
RECURSIVE BSearch(_, _, _, _)
BSearch(t, cp, lo, hi) ==
  IF lo >= hi THEN 0
  ELSE LET mid == lo + ((hi - lo) \div 2)
           c == CmpE(t[mid + 1], cp) IN
       IF c = "Equal" THEN mid + 1
       ELSE IF c = "Less" THEN BSearch(t, cp, mid + 1, hi)
       ELSE BSearch(t, cp, lo, mid)
Find(t, cp) == BSearch(t, cp, 0, Len(t))
InTable(t, cp) == Find(t, cp) # 0
=============================================================================
