SPECIFICATION Spec
INVARIANT ClassesAgree
INVARIANT ExceptionsFirst
INVARIANT ListOutcome
INVARIANT NonScalarDisallowed
CHECK_DEADLOCK FALSE
