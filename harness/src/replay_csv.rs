//! C17 replay: a model file (token sequences + terminators) is written out as real text and read
//! back through precis_tools::CsvLineParser / PrecisDerivedProperty::from_str.

use crate::replay::Tally;
use crate::util::*;
use precis_tools::{CsvLineParser, DerivedProperties, DerivedProperty, PrecisDerivedProperty};
use serde_json::{json, Value};
use std::io::Write;
use std::path::PathBuf;
use std::str::FromStr;

pub fn prop_name(p: &DerivedProperty) -> &'static str {
    match p {
        DerivedProperty::PValid => "PVALID",
        DerivedProperty::FreePVal => "FREE_PVAL",
        DerivedProperty::ContextJ => "CONTEXTJ",
        DerivedProperty::ContextO => "CONTEXTO",
        DerivedProperty::Disallowed => "DISALLOWED",
        DerivedProperty::IdDis => "ID_DIS",
        DerivedProperty::Unassigned => "UNASSIGNED",
    }
}

fn line_text(l: &Value) -> String {
    let mut s: String = l["toks"].as_array().unwrap().iter().map(|t| t.as_str().unwrap()).collect();
    s.push_str(l["term"].as_str().unwrap());
    s
}

/// the bytes of a physical line; the token "<BAD-UTF8>" stands for a byte sequence that is not UTF-8
fn line_bytes(l: &Value) -> Vec<u8> {
    let mut out = Vec::new();
    for t in l["toks"].as_array().unwrap() {
        let t = t.as_str().unwrap();
        if t == "<BAD-UTF8>" {
            out.extend_from_slice(&[0xC9, 0x20]);
        } else {
            out.extend_from_slice(t.as_bytes());
        }
    }
    out.extend_from_slice(l["term"].as_str().unwrap().as_bytes());
    out
}

/// "the same description text (up to the line terminator)": compare modulo one trailing LF / CRLF
pub fn strip_term(s: &str) -> &str {
    let s = s.strip_suffix('\n').unwrap_or(s);
    s.strip_suffix('\r').unwrap_or(s)
}

fn expected_item(it: &Value) -> Value {
    if let Some(ok) = it.get("ok") {
        let desc: String = ok["desc"].as_array().unwrap().iter().map(|t| t.as_str().unwrap()).collect::<String>();
        json!({"ok": {"cps": ok["cps"], "props": ok["props"], "desc": desc}})
    } else if it.get("ioerr").is_some() {
        json!({"ioerr": true})
    } else {
        json!({"err": it["err"]})
    }
}

fn item_json(it: Result<PrecisDerivedProperty, precis_tools::Error>) -> Value {
    match it {
        Ok(p) => json!({"ok": row_json_real(&p)}),
        Err(e) => match e.line() {
            Some(n) => json!({ "err": n }),
            None => json!({"ioerr": true}),
        },
    }
}

/// the parser is an Iterator: whatever way its items are taken (nth, skip, step_by, count, last, fresh parsers each), they are
/// the items repeated next() delivers.  Returns the first disagreement.
pub fn protocol_check(path: &std::path::Path, items: &[Value]) -> Option<Value> {
    let r = std::panic::catch_unwind(|| -> Option<Value> {
        let open = || -> Option<CsvLineParser<std::fs::File, PrecisDerivedProperty>> { CsvLineParser::from_path(path).ok() };
        let n = items.len();
        if n > 400 {
            return None;
        }
        for k in 0..=(n + 1) {
            let got = open()?.nth(k).map(item_json);
            if got.as_ref() != items.get(k) {
                return Some(json!({"how": format!("nth({}) on a fresh parser", k), "expected": items.get(k), "actual": got}));
            }
            if k <= 3 || k + 2 >= n {
                let v: Vec<Value> = open()?.skip(k).map(item_json).collect();
                if v.as_slice() != &items[k.min(n)..] {
                    return Some(json!({"how": format!("skip({}).collect()", k), "expected_items": n - k.min(n), "actual_items": v.len(), "first": v.first()}));
                }
            }
        }
        if open()?.count() != n {
            return Some(json!({"how": "count()", "expected": n}));
        }
        if open()?.last().map(item_json).as_ref() != items.last() {
            return Some(json!({"how": "last()"}));
        }
        let v: Vec<Value> = open()?.step_by(2).map(item_json).collect();
        let e: Vec<Value> = items.iter().step_by(2).cloned().collect();
        if v != e {
            return Some(json!({"how": "step_by(2)"}));
        }
        // next() then nth(k)
        let mut p = open()?;
        let first = p.next().map(item_json);
        let third = p.nth(1).map(item_json);
        if first.as_ref() != items.get(0) || third.as_ref() != items.get(2) {
            return Some(json!({"how": "next() then nth(1)"}));
        }
        None
    });
    r.unwrap_or_else(|_| Some(json!({"how": "panic in an iterator method"})))
}

pub fn read_file(path: &std::path::Path) -> Value {
    let r = std::panic::catch_unwind(|| {
        let parser: CsvLineParser<std::fs::File, PrecisDerivedProperty> = match CsvLineParser::from_path(path) {
            Ok(p) => p,
            Err(e) => return json!({"open_error": e.to_string()}),
        };
        let mut items = Vec::new();
        for it in parser {
            match it {
                Ok(p) => items.push(json!({"ok": crate::replay_csv::row_json_real(&p)})),
                Err(e) => match e.line() {
                    Some(n) => items.push(json!({ "err": n })),
                    None => items.push(json!({"ioerr": true})),
                },
            }
            if items.len() > 10_000 {
                break;
            }
        }
        Value::Array(items)
    });
    r.unwrap_or_else(|_| json!({"panic": "csv parser"}))
}

pub fn row_json_real(p: &PrecisDerivedProperty) -> Value {
    // ucd_parse::Codepoints is re-exported through the field type; use its Display-independent API
    let dbg = format!("{:?}", p.codepoints);
    // Debug of ucd_parse::Codepoints: Single(Codepoint(65)) / Range(CodepointRange { start: Codepoint(65), end: Codepoint(90) })
    let nums: Vec<u32> = dbg
        .split(|c: char| !c.is_ascii_digit())
        .filter(|x| !x.is_empty())
        .map(|x| x.parse().unwrap())
        .collect();
    let cps = if dbg.starts_with("Single") { json!({"k": "S", "c": nums[0]}) } else { json!({"k": "R", "s": nums[0], "e": nums[1]}) };
    let props = match p.properties {
        DerivedProperties::Single(ref a) => json!([prop_name(a)]),
        DerivedProperties::Tuple((ref a, ref b)) => json!([prop_name(a), prop_name(b)]),
    };
    json!({"cps": cps, "props": props, "desc": strip_term(&p.description)})
}

pub fn replay_csv(doc: &Value, t: &mut Tally) {
    let dir = PathBuf::from(std::env::var("PVH_SCRATCH").unwrap_or_else(|_| tool_error("PVH_SCRATCH not set")));
    std::fs::create_dir_all(&dir).ok();
    let path = dir.join("registry.csv");
    let lines = doc["file"].as_array().unwrap();
    let mut bytes: Vec<u8> = Vec::new();
    for l in lines {
        bytes.extend(line_bytes(l));
    }
    let text = String::from_utf8_lossy(&bytes).to_string();
    let mut f = std::fs::File::create(&path).unwrap();
    f.write_all(&bytes).unwrap();
    drop(f);
    t.executions += 1;
    let actual = read_file(&path);
    let expected = Value::Array(doc["items"].as_array().unwrap().iter().map(expected_item).collect());
    // Lines that are not valid UTF-8 are outside the property: what is reported FOR them (an I/O error without a
    // line number today) is not compared.  What is reported for every other line - including its line number -
    // must be exactly the model's, so a line counter that goes wrong after such a line is still seen.
    let bad_lines: Vec<u64> = lines.iter().enumerate().filter(|(_, l)| std::str::from_utf8(&line_bytes(l)).is_err()).map(|(i, _)| i as u64 + 1).collect();
    let strip = |v: &Value| -> Value {
        match v.as_array() {
            None => v.clone(),
            Some(a) => Value::Array(
                a.iter()
                    .filter(|it| it.get("ioerr").is_none() && !it.get("err").and_then(|n| n.as_u64()).map(|n| bad_lines.contains(&n)).unwrap_or(false))
                    .cloned()
                    .collect(),
            ),
        }
    };
    if strip(&actual) != strip(&expected) {
        t.mismatch(json!({"k": "csv", "text": text, "expected": expected, "actual": actual}));
    } else if bad_lines.is_empty() {
        // the items are right when taken with next(); they must be the same items however they are taken
        if let Some(items) = actual.as_array() {
            if let Some(d) = protocol_check(&path, items) {
                t.mismatch(json!({"k": "csv-iterator", "text": text, "items_by_next": items.len(), "what": d}));
            }
        }
    }
    // the same rows through FromStr, without the iterator
    // (index of the expected item of physical line i: an undecodable header yields an item of its own)
    let shift = if expected.as_array().unwrap().len() == lines.len() { 0 } else { 1 };
    if actual.as_array().is_none() {
        return;
    }
    for (i, l) in lines.iter().enumerate().skip(1) {
        if line_bytes(l).contains(&0xC9) && std::str::from_utf8(&line_bytes(l)).is_err() {
            continue;
        }
        let line = line_text(l);
        let r = std::panic::catch_unwind(|| PrecisDerivedProperty::from_str(&line));
        t.executions += 1;
        let got = match r {
            Err(_) => json!({"panic": "from_str"}),
            Ok(Ok(p)) => json!({"ok": row_json_real(&p)}),
            Ok(Err(_)) => json!("err"),
        };
        let exp = match expected[i - shift].get("ok") {
            Some(o) => json!({ "ok": o }),
            None => json!("err"),
        };
        if got != exp {
            t.mismatch(json!({"k": "csv-from_str", "line": line, "expected": exp, "actual": got}));
        }
    }
    if expected.as_array().unwrap().iter().any(|x| x.get("err").is_some()) {
        t.nontrivial += 1;
    }
}
