//! replay of string-level behaviours (profiles, string classes, context rules, bidi)
use crate::replay::Tally;
use crate::util::*;
use serde_json::{json, Value};

pub struct Ctx {
    pub oracle: Option<crate::oracle::Oracle>,
    pub seed: u64,
}

impl Ctx {
    pub fn new(args: &[String]) -> Ctx {
        Ctx {
            oracle: arg_value(args, "--oracle").map(|p| crate::oracle::Oracle::load(&p)),
            seed: arg_u64(args, "--seed", 1),
        }
    }
}

pub fn replay(_ctx: &Ctx, doc: &Value, t: &mut Tally) {
    t.mismatch(json!({"toolerr": "unknown replay kind", "case": doc}));
}
