//! Uniform, black-box access to the public API of precis-core / precis-profiles.
//! Every call runs under catch_unwind; results are rendered as the JSON values the
//! TLA+ specification uses (see spec/Base.tla).

use precis_core::context;
use precis_core::profile::{PrecisFastInvocation, Profile, Rules};
use precis_core::{DerivedPropertyValue, Error, FreeformClass, IdentifierClass, StringClass, UnexpectedError};
use precis_profiles::{Nickname, OpaqueString, UsernameCaseMapped, UsernameCasePreserved};
use serde_json::{json, Value};
use std::borrow::Cow;
use std::panic::{catch_unwind, AssertUnwindSafe};

use crate::util::string_to_cps;

pub fn silence_panics() {
    std::panic::set_hook(Box::new(|_| {}));
}

pub fn prop_name(p: DerivedPropertyValue) -> &'static str {
    match p {
        DerivedPropertyValue::PValid => "PVALID",
        DerivedPropertyValue::SpecClassPval => "SPEC_PVAL",
        DerivedPropertyValue::SpecClassDis => "SPEC_DIS",
        DerivedPropertyValue::ContextJ => "CONTEXTJ",
        DerivedPropertyValue::ContextO => "CONTEXTO",
        DerivedPropertyValue::Disallowed => "DISALLOWED",
        DerivedPropertyValue::Unassigned => "UNASSIGNED",
    }
}

pub fn prop_from_name(s: &str) -> Option<DerivedPropertyValue> {
    Some(match s {
        "PVALID" => DerivedPropertyValue::PValid,
        "SPEC_PVAL" => DerivedPropertyValue::SpecClassPval,
        "SPEC_DIS" => DerivedPropertyValue::SpecClassDis,
        "CONTEXTJ" => DerivedPropertyValue::ContextJ,
        "CONTEXTO" => DerivedPropertyValue::ContextO,
        "DISALLOWED" => DerivedPropertyValue::Disallowed,
        "UNASSIGNED" => DerivedPropertyValue::Unassigned,
        _ => return None,
    })
}

/// position values can exceed TLC's 32-bit integers; clamp (semantically "beyond any label")
pub fn clamp_pos(p: usize) -> u64 {
    std::cmp::min(p as u64, 2_000_000_000)
}

pub fn err_json(e: &Error) -> Value {
    match e {
        Error::Invalid => json!({"err": "Invalid"}),
        Error::BadCodepoint(i) => {
            json!({"err": "BadCodepoint", "cp": i.cp, "pos": clamp_pos(i.position), "prop": prop_name(i.property)})
        }
        Error::Unexpected(u) => match u {
            UnexpectedError::ContextRuleNotApplicable(i) => {
                json!({"err": "ContextRuleNotApplicable", "cp": i.cp, "pos": clamp_pos(i.position), "prop": prop_name(i.property)})
            }
            UnexpectedError::MissingContextRule(i) => {
                json!({"err": "MissingContextRule", "cp": i.cp, "pos": clamp_pos(i.position), "prop": prop_name(i.property)})
            }
            UnexpectedError::ProfileRuleNotApplicable => json!({"err": "ProfileRuleNotApplicable"}),
            UnexpectedError::Undefined => json!({"err": "Undefined"}),
        },
    }
}

fn panic_json(p: Box<dyn std::any::Any + Send>) -> Value {
    let msg = if let Some(s) = p.downcast_ref::<&str>() {
        s.to_string()
    } else if let Some(s) = p.downcast_ref::<String>() {
        s.clone()
    } else {
        "panic".to_string()
    };
    json!({ "panic": msg })
}

pub fn guarded<F: FnOnce() -> Value>(f: F) -> Value {
    match catch_unwind(AssertUnwindSafe(f)) {
        Ok(v) => v,
        Err(p) => panic_json(p),
    }
}

pub fn str_result(r: Result<Cow<str>, Error>) -> Value {
    match r {
        Ok(s) => json!({ "ok": string_to_cps(&s) }),
        Err(e) => err_json(&e),
    }
}

/// like str_result but also reports whether the Cow was borrowed
pub fn str_result_cow(r: Result<Cow<str>, Error>) -> (Value, Option<bool>) {
    match r {
        Ok(s) => {
            let b = matches!(s, Cow::Borrowed(_));
            (json!({ "ok": string_to_cps(&s) }), Some(b))
        }
        Err(e) => (err_json(&e), None),
    }
}

pub fn bool_result(r: Result<bool, Error>) -> Value {
    match r {
        Ok(b) => json!({ "eq": b }),
        Err(e) => err_json(&e),
    }
}

pub fn unit_result(r: Result<(), Error>) -> Value {
    match r {
        Ok(()) => json!({ "unit": true }),
        Err(e) => err_json(&e),
    }
}

pub fn ctx_result(r: Result<bool, context::ContextRuleError>) -> Value {
    match r {
        Ok(b) => json!({ "bool": b }),
        Err(context::ContextRuleError::NotApplicable) => json!({"cerr": "NotApplicable"}),
        Err(context::ContextRuleError::Undefined) => json!({"cerr": "Undefined"}),
    }
}

pub const PROFILES: [&str; 4] = ["UCM", "UCP", "OPQ", "NICK"];
pub const RULES: [&str; 5] = [
    "width_mapping_rule",
    "additional_mapping_rule",
    "case_mapping_rule",
    "normalization_rule",
    "directionality_rule",
];
pub const CTX_RULES: [&str; 8] = [
    "zwnj", "zwj", "middle_dot", "keraia", "hebrew", "katakana", "arabic_indic", "ext_arabic_indic",
];

pub fn ctx_rule_fn(name: &str) -> Option<context::ContextRule> {
    Some(match name {
        "zwnj" => context::rule_zero_width_nonjoiner,
        "zwj" => context::rule_zero_width_joiner,
        "middle_dot" => context::rule_middle_dot,
        "keraia" => context::rule_greek_lower_numeral_sign_keraia,
        "hebrew" => context::rule_hebrew_punctuation,
        "katakana" => context::rule_katakana_middle_dot,
        "arabic_indic" => context::rule_arabic_indic_digits,
        "ext_arabic_indic" => context::rule_extended_arabic_indic_digits,
        _ => return None,
    })
}

/// name of the rule get_context_rule registers for cp ("" if none): identified by
/// function pointer equality with the public rule functions
pub fn registered_rule(cp: u32) -> &'static str {
    match context::get_context_rule(cp) {
        None => "",
        Some(f) => {
            for n in CTX_RULES.iter() {
                if ctx_rule_fn(n).unwrap() as usize == f as usize {
                    return n;
                }
            }
            "?"
        }
    }
}

/// what the property states about the registry: "" if no rule is registered for cp; otherwise whether the
/// registered rule applies to cp (it must not answer NotApplicable on the one-character label [cp])
pub fn registry_obs(cp: u32) -> &'static str {
    match context::get_context_rule(cp) {
        None => "",
        Some(f) => match char::from_u32(cp) {
            None => "registered-for-non-scalar",
            Some(c) => {
                let s = c.to_string();
                match catch_unwind(AssertUnwindSafe(|| f(&s, 0))) {
                    Err(_) => "panic",
                    Ok(Err(context::ContextRuleError::NotApplicable)) => "not-applicable",
                    Ok(_) => "applies",
                }
            }
        },
    }
}

pub fn call_ctx(rule: &str, s: &str, off: usize) -> Value {
    let f = ctx_rule_fn(rule).expect("rule name");
    guarded(|| ctx_result(f(s, off)))
}

pub fn call_allows(cls: &str, s: &str) -> Value {
    guarded(|| match cls {
        "Id" => unit_result(IdentifierClass::default().allows(s)),
        _ => unit_result(FreeformClass::default().allows(s)),
    })
}

pub fn class_value(cls: &str, cp: u32) -> &'static str {
    match cls {
        "Id" => prop_name(IdentifierClass::default().get_value_from_codepoint(cp)),
        _ => prop_name(FreeformClass::default().get_value_from_codepoint(cp)),
    }
}

/// classification under catch_unwind: a panic is reported as the value "PANIC"
pub fn class_value_g(cls: &str, cp: u32) -> &'static str {
    match catch_unwind(AssertUnwindSafe(|| class_value(cls, cp))) {
        Ok(v) => v,
        Err(_) => "PANIC",
    }
}

pub fn class_value_char(cls: &str, c: char) -> &'static str {
    match cls {
        "Id" => prop_name(IdentifierClass::default().get_value_from_char(c)),
        _ => prop_name(FreeformClass::default().get_value_from_char(c)),
    }
}

/// how the argument is handed over
#[derive(Clone, Copy, PartialEq, Eq, Debug)]
pub enum ArgKind {
    Str,
    Owned,
    CowBorrowed,
    CowOwned,
}

pub const ARG_KINDS: [(&str, ArgKind); 4] = [
    ("str", ArgKind::Str),
    ("string", ArgKind::Owned),
    ("cow_b", ArgKind::CowBorrowed),
    ("cow_o", ArgKind::CowOwned),
];

pub fn arg_kind(name: &str) -> ArgKind {
    for (n, k) in ARG_KINDS.iter() {
        if *n == name {
            return *k;
        }
    }
    ArgKind::Str
}

macro_rules! with_arg {
    ($kind:expr, $s:expr, |$a:ident| $body:expr) => {
        match $kind {
            ArgKind::Str => {
                let $a: &str = $s;
                $body
            }
            ArgKind::Owned => {
                let $a: String = $s.to_string();
                $body
            }
            ArgKind::CowBorrowed => {
                let $a: Cow<str> = Cow::Borrowed($s);
                $body
            }
            ArgKind::CowOwned => {
                let $a: Cow<str> = Cow::Owned($s.to_string());
                $body
            }
        }
    };
}

/// the two operands of compare: for the borrowed argument kinds, operands one of which is contained in the other are
/// passed as two views of ONE buffer (a stored string and a prefix / field of it); the result may depend on the content
/// of the operands only, never on where they live
fn cmp_views<R>(kind: ArgKind, a: &str, b: &str, f: impl FnOnce(&str, &str) -> R) -> R {
    if matches!(kind, ArgKind::Str | ArgKind::CowBorrowed) && a != b {
        if let Some(at) = b.find(a) {
            let buf = b.to_string();
            return f(&buf[at..at + a.len()], &buf[..]);
        }
        if let Some(at) = a.find(b) {
            let buf = a.to_string();
            return f(&buf[..], &buf[at..at + b.len()]);
        }
    }
    f(a, b)
}

fn op_on<P: Profile + Rules>(p: &P, op: &str, kind: ArgKind, args: &[String]) -> (Value, Option<bool>) {
    let s = args[0].as_str();
    match op {
        "prepare" => with_arg!(kind, s, |a| str_result_cow(p.prepare(a))),
        "enforce" => with_arg!(kind, s, |a| str_result_cow(p.enforce(a))),
        "compare" => (cmp_views(kind, s, args[1].as_str(), |x, y| bool_result(p.compare(x, y))), None),
        "width_mapping_rule" => with_arg!(kind, s, |a| str_result_cow(p.width_mapping_rule(a))),
        "additional_mapping_rule" => with_arg!(kind, s, |a| str_result_cow(p.additional_mapping_rule(a))),
        "case_mapping_rule" => with_arg!(kind, s, |a| str_result_cow(p.case_mapping_rule(a))),
        "normalization_rule" => with_arg!(kind, s, |a| str_result_cow(p.normalization_rule(a))),
        "directionality_rule" => with_arg!(kind, s, |a| str_result_cow(p.directionality_rule(a))),
        _ => (json!({"toolerr": "unknown op"}), None),
    }
}

fn op_static<P: PrecisFastInvocation>(op: &str, kind: ArgKind, args: &[String]) -> (Value, Option<bool>) {
    let s = args[0].as_str();
    match op {
        "prepare" => with_arg!(kind, s, |a| str_result_cow(P::prepare(a))),
        "enforce" => with_arg!(kind, s, |a| str_result_cow(P::enforce(a))),
        "compare" => (cmp_views(kind, s, args[1].as_str(), |x, y| bool_result(P::compare(x, y))), None),
        _ => (json!({"toolerr": "unknown static op"}), None),
    }
}

thread_local! {
    static LONG_UCM: UsernameCaseMapped = UsernameCaseMapped::new();
    static LONG_UCP: UsernameCasePreserved = UsernameCasePreserved::new();
    static LONG_OPQ: OpaqueString = OpaqueString::new();
    static LONG_NICK: Nickname = Nickname::new();
}

/// form: "inst" (fresh instance), "long" (long-lived instance), "static" (PrecisFastInvocation)
pub fn call_profile_full(profile: &str, form: &str, op: &str, kind: ArgKind, args: &[String]) -> (Value, Option<bool>) {
    let mut borrowed = None;
    let v = guarded(|| {
        let (v, b) = match (profile, form) {
            ("UCM", "static") => op_static::<UsernameCaseMapped>(op, kind, args),
            ("UCP", "static") => op_static::<UsernameCasePreserved>(op, kind, args),
            ("OPQ", "static") => op_static::<OpaqueString>(op, kind, args),
            ("NICK", "static") => op_static::<Nickname>(op, kind, args),
            ("UCM", "long") => LONG_UCM.with(|p| op_on(p, op, kind, args)),
            ("UCP", "long") => LONG_UCP.with(|p| op_on(p, op, kind, args)),
            ("OPQ", "long") => LONG_OPQ.with(|p| op_on(p, op, kind, args)),
            ("NICK", "long") => LONG_NICK.with(|p| op_on(p, op, kind, args)),
            ("UCM", _) => op_on(&UsernameCaseMapped::new(), op, kind, args),
            ("UCP", _) => op_on(&UsernameCasePreserved::new(), op, kind, args),
            ("OPQ", _) => op_on(&OpaqueString::new(), op, kind, args),
            ("NICK", _) => op_on(&Nickname::new(), op, kind, args),
            _ => (json!({"toolerr": "unknown profile"}), None),
        };
        borrowed = b;
        v
    });
    (v, borrowed)
}

pub fn call_profile(profile: &str, op: &str, args: &[String]) -> Value {
    call_profile_full(profile, "inst", op, ArgKind::Str, args).0
}
