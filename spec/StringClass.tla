----------------------------- MODULE StringClass -----------------------------
(***************************************************************************)
(* String classes (precis-core/src/stringclasses.rs:102-178).              *)
(* Prop(c) is the derived property of c in the class at hand: for the two  *)
(* standard classes it comes from the universe, for a user-supplied class  *)
(* it is an arbitrary function.                                            *)
(***************************************************************************)
EXTENDS ContextRules

Valid(prop)      == prop \in {"PVALID", "SPEC_PVAL"}
Contextual(prop) == prop \in {"CONTEXTJ", "CONTEXTO"}

\* outcome for a contextual character at 0-based offset off (allowed_by_context_rule)
ByContext(W, s, cp, off, prop) ==
  LET rule == RuleOf(cp) IN
  IF rule = "" THEN ErrMissing(cp, off, prop)
  ELSE LET r == Rule(W, rule, s, off) IN
       IF "bool" \in DOMAIN r
       THEN (IF r.bool THEN OkUnit ELSE ErrBad(cp, off, prop))
       ELSE IF r.cerr = "NotApplicable" THEN ErrNotAppl(cp, off, prop) ELSE ErrUndefined

\* verdict for the single position off
Verdict(W, Prop(_), s, off) ==
  LET c == s[off + 1]  prop == Prop(c) IN
  IF Valid(prop) THEN OkUnit
  ELSE IF Contextual(prop) THEN ByContext(W, s, c, off, prop)
  ELSE ErrBad(c, off, prop)

\* ---- declarative: the first offending position decides ---------------------
Offending(W, Prop(_), s) == {off \in 0..(Len(s) - 1) : Verdict(W, Prop, s, off) # OkUnit}
AllowsSpec(W, Prop(_), s) ==
  IF Offending(W, Prop, s) = {} THEN OkUnit
  ELSE Verdict(W, Prop, s, CHOOSE o \in Offending(W, Prop, s) : \A o2 \in Offending(W, Prop, s) : o <= o2)

\* ---- implementation-shaped: the loop with early exit ----------------------
RECURSIVE AllowsLoop(_, _, _, _)
AllowsLoop(W, Prop(_), s, off) ==
  IF off >= Len(s) THEN OkUnit
  ELSE LET v == Verdict(W, Prop, s, off) IN
       IF v # OkUnit THEN v ELSE AllowsLoop(W, Prop, s, off + 1)

\* standard classes: cls in {"Id", "Ff"}
StdProp(W, cls, c) == PropOf(cls, W.u[c].idp)
Allows(W, cls, s) == AllowsSpec(W, LAMBDA c : StdProp(W, cls, c), s)
AllowsScan(W, cls, s) == AllowsLoop(W, LAMBDA c : StdProp(W, cls, c), s, 0)
=============================================================================
