"""Binding self-test: the specification must REJECT a corrupted observation.  One field of one
recorded event is corrupted (L1, L3, L3-csv) and one replay expectation is flipped (L2); each layer
must report exactly that case.  A layer that accepts the corrupted input fails (tool error)."""
import json
import os

from common import nl_lines, CACHE, ensure_oracle, log, run_harness, run_tlc, tool_error
from mc import run_mc


def _bad_of(res):
    for tag, payload in res.printed:
        if tag == "BAD":
            return json.loads(payload)
    tool_error("selftest: TLC printed no verdict")


def selftest_l1():
    trace = os.path.join(CACHE, "selftest-l1-%d.ndjson" % os.getpid())
    run_harness(["l1", "--oracle", ensure_oracle(), "--out", trace])
    lines = nl_lines(open(trace).read())
    k = 200
    e = json.loads(lines[k])
    e["obs"]["id"] = "PVALID" if e["obs"]["id"] != "PVALID" else "DISALLOWED"
    e["obs"]["wm"][1] = {"ok": [97, 98]}
    lines[k] = json.dumps(e)
    with open(trace, "w") as f:
        f.write("\n".join(lines) + "\n")
    res = run_tlc("Trace_CodePoints", modules_dir="trace", env={"TRACE": trace}, workers=1, timeout=600)
    os.remove(trace)
    bad = _bad_of(res)
    if len(bad) != 1 or bad[0]["l"] != k + 1 or set(bad[0]["fields"]) != {"id", "wm2"}:
        tool_error("selftest L1: corrupted event not rejected precisely: %s" % json.dumps(bad)[:300])
    return "L1: corrupted fields id, wm2 of event %d rejected, nothing else" % (k + 1)


def selftest_l2():
    cfg = ("SPECIFICATION Spec\nCONSTANTS\n  NStates = 3\n  D <- MCD\n  E1 = E1\n  E2 = E2\n  MaxApps = 4\n  Starts = {1}\n"
           "INVARIANT Contract\nINVARIANT Emit\nVIEW View\nCHECK_DEADLOCK FALSE\n")
    mc = run_mc("MC_Stabilize", cfg, "selftest", workers=2, coverage=False)
    lines = nl_lines(open(mc.replay_path).read())
    os.remove(mc.replay_path)
    k = len(lines) // 2
    d = json.loads(lines[k])
    d["calls"] = d["calls"] + [1]
    lines[k] = json.dumps(d)
    p = os.path.join(CACHE, "selftest-l2-%d.ndjson" % os.getpid())
    with open(p, "w") as f:
        f.write("\n".join(lines) + "\n")
    out, _ = run_harness(["replay", "--in", p])
    os.remove(p)
    mism = [json.loads(l) for l in nl_lines(out) if l.startswith('{"mismatch"')]
    summ = [json.loads(l)["summary"] for l in nl_lines(out) if l.startswith('{"summary"')][0]
    # four executions per behaviour (3 string assignments x 2 Cow policies = 6) all disagree with the flipped expectation
    if summ["mismatches"] == 0 or any(m["mismatch"]["case"]["f"] != d["f"] for m in mism):
        tool_error("selftest L2: flipped expectation not reported precisely: %s" % json.dumps(summ))
    return "L2: flipped expectation of behaviour %d reported (%d executions), nothing else" % (k, summ["mismatches"])


def selftest_l3():
    trace = os.path.join(CACHE, "selftest-l3-%d.ndjson" % os.getpid())
    run_harness(["record", "--oracle", ensure_oracle(), "--out", trace, "--strings", "60", "--per-string", "3", "--seed", "11",
                 "--kinds", "enforce,prepare", "--profiles", "OPQ,NICK"])
    lines = nl_lines(open(trace).read())
    k = None
    for i, ln in enumerate(lines):
        e = json.loads(ln)
        if "ok" in e["res"] and len(e["res"]["ok"]) > 0:
            k = i
            e["res"]["ok"][0] = e["res"]["ok"][0] + 1
            # keep the corrupted character known to the attribute table
            e["tbl"].append(dict(e["tbl"][0], cp=e["res"]["ok"][0]))
            lines[i] = json.dumps(e)
            break
    if k is None:
        tool_error("selftest L3: no successful event to corrupt")
    with open(trace, "w") as f:
        f.write("\n".join(lines) + "\n")
    res = run_tlc("Trace_Api", modules_dir="trace", env={"TRACE": trace}, workers=1, timeout=600)
    os.remove(trace)
    bad = [b for b in _bad_of(res) if not b["j"].startswith("known:")]
    if len(bad) < 1 or bad[0]["l"] != k + 1 or any(b["j"] not in ("mismatch", "memo") for b in bad):
        tool_error("selftest L3: corrupted result not rejected precisely: %s" % json.dumps(bad)[:300])
    return "L3: corrupted result of event %d rejected" % (k + 1)


def selftest_csv():
    trace = os.path.join(CACHE, "selftest-csv-%d.ndjson" % os.getpid())
    run_harness(["csvfuzz", "--seed", "5", "--rows", "300", "--out", trace])
    lines = nl_lines(open(trace).read())
    k = None
    for i, ln in enumerate(lines):
        e = json.loads(ln)
        if e["res"]["st"] == "ok":
            k = i
            e["res"]["props"] = ["DISALLOWED", "PVALID", "UNASSIGNED"]
            lines[i] = json.dumps(e)
            break
    with open(trace, "w") as f:
        f.write("\n".join(lines) + "\n")
    res = run_tlc("Trace_Csv", modules_dir="trace", env={"TRACE": trace}, workers=1, timeout=600)
    os.remove(trace)
    bad = _bad_of(res)
    if bad != [k + 1]:
        tool_error("selftest L3-csv: corrupted row not rejected precisely: %s" % json.dumps(bad)[:300])
    return "L3-csv: corrupted row %d rejected, nothing else" % (k + 1)


def selftest_version():
    """the version reading is bound to the generator: one expectation changed to the reading with escaped dots must be reported"""
    scratch = os.path.join(CACHE, "pvh-gen-selftest-%d" % os.getpid())
    p = os.path.join(CACHE, "selftest-version-%d.ndjson" % os.getpid())
    docs = [{"k": "version", "text": list("1.0.7"), "res": {"major": 1, "minor": 0, "patch": 7}},
            {"k": "version", "text": list("10717"), "res": {"err": "no version"}},        # what literal dots would give
            {"k": "version", "text": list("x1.0"), "res": {"err": "no version"}}]
    with open(p, "w") as f:
        f.write("\n".join(json.dumps(d) for d in docs) + "\n")
    try:
        out, _ = run_harness(["replay", "--in", p], env={"PVH_SCRATCH": scratch})
    finally:
        os.remove(p)
        import shutil
        shutil.rmtree(scratch, ignore_errors=True)
    mism = [json.loads(l)["mismatch"] for l in nl_lines(out) if l.startswith('{"mismatch"')]
    if len(mism) != 3 or any("10717" not in m["text"] or m["actual"] != {"major": 1, "minor": 7, "patch": 7} for m in mism):
        tool_error("selftest version: literal-dot expectation not reported precisely: %s" % json.dumps(mism)[:300])
    return "L2-version: the literal-dot reading of '10717' is rejected in all 3 surroundings (the code reads 1,7,7), nothing else"


def run_all():
    out = []
    for f in (selftest_l1, selftest_l2, selftest_l3, selftest_csv, selftest_version):
        r = f()
        log("selftest " + r)
        out.append(r)
    return out
