//! Layer L2: behaviours emitted by TLC (one JSON document per line) are replayed into the
//! real code; the outcome is compared with the model's.  Output: one JSON line per mismatch
//! and a final summary line.  Deciding what a mismatch means (VIOLATION, KNOWN-FINDING) is
//! left to the caller.

use crate::api::*;
use crate::util::*;
use precis_core::profile::stabilize;
use precis_core::{CodepointInfo, Codepoints, DerivedPropertyValue, Error, UnexpectedError};
use serde_json::{json, Value};
use std::borrow::Cow;
use std::cell::RefCell;
use std::cmp::Ordering;

pub struct Tally {
    pub n: u64,
    pub executions: u64,
    pub mismatches: u64,
    pub nontrivial: u64,
    pub printed: u64,
    pub dev: u64,
    pub current: Option<Value>,
}

impl Tally {
    /// mismatches explained by a named deviation of the model (known findings) are counted and
    /// only the first few are printed, so that they can never crowd out an unexplained one
    pub fn mismatch(&mut self, mut v: Value) {
        self.mismatches += 1;
        // every mismatch carries the behaviour it came from, so that it can be replayed alone
        if let (Some(m), Some(c)) = (v.as_object_mut(), self.current.as_ref()) {
            if !m.contains_key("case") {
                m.insert("case".into(), c.clone());
            }
        }
        let is_dev = v.get("dev").map(|d| !d.is_null()).unwrap_or(false);
        if is_dev {
            self.dev += 1;
            if self.dev <= 40 {
                println!("{}", json!({ "mismatch": v }));
            }
        } else if self.printed < 1000 {
            println!("{}", json!({ "mismatch": v }));
            self.printed += 1;
        }
    }
}

fn entry(v: &Value, base: u64) -> Codepoints {
    if v["k"] == "S" {
        Codepoints::Single((v["c"].as_u64().unwrap() + base) as u32)
    } else {
        Codepoints::Range(std::ops::RangeInclusive::new(
            (v["s"].as_u64().unwrap() + base) as u32,
            (v["e"].as_u64().unwrap() + base) as u32,
        ))
    }
}

fn ord_name(o: Option<Ordering>) -> &'static str {
    match o {
        Some(Ordering::Less) => "Less",
        Some(Ordering::Greater) => "Greater",
        Some(Ordering::Equal) => "Equal",
        None => "None",
    }
}

/// window bases; the last one is replaced by u32::MAX - (window - 1) so that the top of the window is u32::MAX
pub const BASES: [u64; 5] = [0, 0x7a, 0x10FFFA, 0x7FFF_FFFC, 0xFFFF_FFF9];

fn bases(window: u64) -> [u64; 5] {
    let mut b = BASES;
    b[4] = 0xFFFF_FFFF - (window - 1);
    b
}

#[allow(clippy::neg_cmp_op_on_partial_ord)]
fn replay_cmp(doc: &Value, t: &mut Tally, window: u64) {
    for base in bases(window).iter() {
        let x = entry(&doc["x"], *base);
        let cp = (doc["cp"].as_u64().unwrap() + base) as u32;
        let got = guarded(|| {
            json!({
                "eq": x == cp, "ne": x != cp, "lt": x < cp, "le": x <= cp, "gt": x > cp, "ge": x >= cp,
                "cmp": ord_name(x.partial_cmp(&cp)),
                "meq": cp == x, "mne": cp != x, "mlt": cp < x, "mle": cp <= x, "mgt": cp > x, "mge": cp >= x,
                "mcmp": ord_name(cp.partial_cmp(&x)),
            })
        });
        t.executions += 1;
        if got != doc["ops"] {
            t.mismatch(json!({"k": "cmp", "base": base, "case": doc, "actual": got}));
        }
    }
    // entry and code point far apart (>= 2^31): the model is order-only, so the expected results are those of the
    // same relative order inside the window
    let lo = if doc["x"]["k"] == "S" { doc["x"]["c"].as_u64().unwrap() } else { doc["x"]["s"].as_u64().unwrap() };
    let hi = if doc["x"]["k"] == "S" { doc["x"]["c"].as_u64().unwrap() } else { doc["x"]["e"].as_u64().unwrap() };
    let mcp = doc["cp"].as_u64().unwrap();
    let far: Vec<(u64, u64)> = if mcp > hi {
        vec![(0, 0xFFFF_FFFF - (window - 1)), (0, 0x8000_0000), (0x7FFF_FFF0, 0xFFFF_FFF0), (0x10FFF0, 0x8011_0000)]
    } else if mcp < lo {
        vec![(0xFFFF_FFFF - (window - 1), 0), (0x8000_0000, 0), (0xFFFF_FFF0, 0x7FFF_FFF0), (0x8011_0000, 0x10FFF0)]
    } else {
        vec![]
    };
    for (xb, cb) in far {
        let x = entry(&doc["x"], xb);
        let cp = (mcp + cb) as u32;
        let got = guarded(|| {
            json!({
                "eq": x == cp, "ne": x != cp, "lt": x < cp, "le": x <= cp, "gt": x > cp, "ge": x >= cp,
                "cmp": ord_name(x.partial_cmp(&cp)),
                "meq": cp == x, "mne": cp != x, "mlt": cp < x, "mle": cp <= x, "mgt": cp > x, "mge": cp >= x,
                "mcmp": ord_name(cp.partial_cmp(&x)),
            })
        });
        t.executions += 1;
        if got != doc["ops"] {
            t.mismatch(json!({"k": "cmp", "entry_base": xb, "cp_base": cb, "case": doc, "actual": got}));
        }
    }
    t.nontrivial += 1;
}

fn replay_search(doc: &Value, t: &mut Tally, window: u64) {
    for base in bases(window).iter() {
        let tbl: Vec<Codepoints> = doc["tbl"].as_array().unwrap().iter().map(|e| entry(e, *base)).collect();
        let cp = (doc["cp"].as_u64().unwrap() + base) as u32;
        let got = guarded(|| match tbl.binary_search_by(|cps| cps.partial_cmp(&cp).unwrap()) {
            Ok(i) => json!(i + 1),
            Err(_) => json!(0),
        });
        t.executions += 1;
        if got != doc["found"] {
            t.mismatch(json!({"k": "search", "base": base, "case": doc, "actual": got}));
        }
    }
    if doc["tbl"].as_array().unwrap().len() > 1 {
        t.nontrivial += 1;
    }
}

// ---- stabilize -------------------------------------------------------------------------
// two assignments of real strings to the model's abstract states.  In the second one each
// string is a strict suffix of the previous one, so that the closure can answer with a
// BORROWED sub-slice of its argument although the string changed.
const STATE_STRINGS: [[&str; 6]; 4] = [
    ["a", "\u{e9}", "\u{65e5}\u{672c}", "\u{1f600}x", "\u{df}\u{3b1}", "zz"],
    ["  \u{e9}\u{65e5}\u{1f600}q", " \u{e9}\u{65e5}\u{1f600}q", "\u{e9}\u{65e5}\u{1f600}q", "\u{65e5}\u{1f600}q", "\u{1f600}q", "q"],
    // the empty string is a string like any other (a rule function may map to it, be stable on it, or fail on it)
    ["\u{3000} ", "", "\u{1f600}", "anonymous", " ", "\u{a0}"],
    // strings that share a multi-byte head and differ after it
    ["\u{e9}\u{65e5}a", "\u{e9}\u{65e5}b", "\u{e9}\u{65e5}ab", "\u{e9}\u{65e5}", "\u{e9}\u{65e5}\u{e9}b", "\u{e9}\u{65e5}ba"],
];

fn stab_err(name: &str) -> Error {
    if name == "E1" {
        Error::BadCodepoint(CodepointInfo::new(0x1100, 7, DerivedPropertyValue::Disallowed))
    } else {
        Error::Unexpected(UnexpectedError::Undefined)
    }
}

fn hr<F: for<'b> Fn(&'b str) -> Result<Cow<'b, str>, Error>>(f: F) -> F {
    f
}

fn replay_stab(doc: &Value, t: &mut Tally) {
    let n = doc["n"].as_u64().unwrap() as usize;
    // f: either an array (1-based in TLA+, so index i-1) or an object keyed by "1".."n"
    let f_of = |i: usize| -> Value {
        if let Some(a) = doc["f"].as_array() {
            a[i - 1].clone()
        } else {
            doc["f"][i.to_string()].clone()
        }
    };
    let start = doc["s"].as_u64().unwrap() as usize;
    for (asg, strings) in STATE_STRINGS.iter().enumerate() {
        for borrow_policy in 0..2 {
            let calls: RefCell<Vec<usize>> = RefCell::new(Vec::new());
            let state_of = |s: &str| -> usize { strings.iter().position(|x| *x == s).map(|p| p + 1).unwrap_or(0) };
            // "for any rule function": a rule function may itself be built on the library (a rule set layered on another
            // stabilized rule set).  Rotating over the six runs, f stays the same FUNCTION of its argument but is
            // implemented (1) on top of a nested stabilize of its own argument under the identity rule, or (2) after a
            // nested stabilize that needs three applications on a scratch string plus a Nickname enforcement.
            let nesting = (asg + borrow_policy) % 3;
            let closure = hr(|arg| {
                let i = state_of(arg);
                calls.borrow_mut().push(i);
                if nesting == 1 {
                    match stabilize(arg, hr(|x| Ok(Cow::Borrowed(x)))) {
                        Ok(ref same) if same.as_ref() == arg => {}
                        other => panic!("nested stabilize under the identity rule returned {:?}", other),
                    }
                } else if nesting == 2 {
                    let inner = hr(|x| Ok(match x.strip_suffix('!') {
                        Some(y) => Cow::Borrowed(y),
                        None => Cow::Borrowed(x),
                    }));
                    match stabilize("x!!", inner) {
                        Ok(ref r) if r.as_ref() == "x" => {}
                        other => panic!("nested stabilize of a two-step rule returned {:?}", other),
                    }
                    let _ = <precis_profiles::Nickname as precis_core::profile::PrecisFastInvocation>::enforce("a \u{3000} b");
                }
                if i == 0 || i > n {
                    return Err(Error::Unexpected(UnexpectedError::ProfileRuleNotApplicable));
                }
                let v = f_of(i);
                if let Some(e) = v.as_str() {
                    return Err(stab_err(e));
                }
                let tgt = strings[v.as_u64().unwrap() as usize - 1];
                if borrow_policy == 0 {
                    // borrow whenever the result is a sub-slice of the argument
                    if arg.ends_with(tgt) {
                        let a: &str = &arg[arg.len() - tgt.len()..];
                        return Ok(Cow::Borrowed(a));
                    }
                    if arg.starts_with(tgt) {
                        let a: &str = &arg[..tgt.len()];
                        return Ok(Cow::Borrowed(a));
                    }
                }
                Ok(Cow::Owned(tgt.to_string()))
            });
            let input = strings[start - 1];
            let res = std::panic::catch_unwind(std::panic::AssertUnwindSafe(|| {
                if borrow_policy == 0 {
                    stabilize(input, closure)
                } else {
                    stabilize(input.to_string(), closure)
                }
            }));
            t.executions += 1;
            let got = match res {
                Err(_) => json!({"panic": "stabilize"}),
                Ok(Ok(s)) => json!({ "ok": state_of(&s) }),
                Ok(Err(e)) => {
                    if e == stab_err("E1") {
                        json!({"err": "E1"})
                    } else if e == stab_err("E2") {
                        json!({"err": "E2"})
                    } else if e == Error::Invalid {
                        json!({"err": "Invalid"})
                    } else {
                        json!({"err": format!("{:?}", e)})
                    }
                }
            };
            let got_calls = json!(calls.borrow().clone());
            if got != doc["res"] || got_calls != doc["calls"] {
                t.mismatch(json!({"k": "stab", "assignment": asg, "borrow_policy": borrow_policy, "case": doc,
                                  "actual": {"res": got, "calls": got_calls}}));
            }
        }
    }
    if doc["calls"].as_array().map(|a| a.len() > 1).unwrap_or(false) || doc["res"].get("err").is_some() {
        t.nontrivial += 1;
    }
}

pub fn main(args: &[String]) {
    silence_panics();
    let input = arg_value(args, "--in").unwrap_or_else(|| "-".to_string());
    let mut t = Tally { n: 0, executions: 0, mismatches: 0, nontrivial: 0, printed: 0, dev: 0, current: None };
    let ctx = crate::replay_str::Ctx::new(args);
    let window = arg_u64(args, "--window", 7);
    // Progress and watchdog: the number of the behaviour being executed is kept in a side file (so that the case is
    // known when the real code takes the whole process down: stack overflow, abort) and watched by a thread (so that
    // a call that never returns ends the run with {"hang": n} and exit code 3 instead of a timeout an hour later)
    let progress = arg_value(args, "--progress").map(|p| std::fs::OpenOptions::new().create(true).write(true).open(p).unwrap_or_else(|e| tool_error(&e.to_string())));
    let current = std::sync::Arc::new(std::sync::atomic::AtomicU64::new(0));
    let limit = arg_u64(args, "--case-timeout", 120);
    {
        let current = current.clone();
        std::thread::spawn(move || {
            let (mut last, mut since) = (0u64, std::time::Instant::now());
            loop {
                std::thread::sleep(std::time::Duration::from_millis(500));
                let now = current.load(std::sync::atomic::Ordering::Relaxed);
                if now != last {
                    last = now;
                    since = std::time::Instant::now();
                } else if now != 0 && since.elapsed().as_secs() >= limit {
                    println!("{}", json!({ "hang": now }));
                    std::process::exit(3);
                }
            }
        });
    }
    let mut lineno = 0u64;
    for line in lines_of(&input) {
        lineno += 1;
        if line.is_empty() {
            continue;
        }
        let doc: Value = serde_json::from_str(&line).unwrap_or_else(|e| tool_error(&format!("bad replay line: {} ({})", e, &line[..line.len().min(200)])));
        t.n += 1;
        current.store(lineno, std::sync::atomic::Ordering::Relaxed);
        if let Some(f) = progress.as_ref() {
            use std::os::unix::fs::FileExt;
            let _ = f.write_at(&lineno.to_le_bytes(), 0);
        }
        t.current = Some(doc.clone());
        match doc["k"].as_str().unwrap_or("") {
            "cmp" => replay_cmp(&doc, &mut t, window),
            "search" => replay_search(&doc, &mut t, window),
            "stab" => replay_stab(&doc, &mut t),
            "gen" => crate::replay_gen::replay_gen(&doc, &mut t),
            "generr" => crate::replay_gen::replay_generr(&doc, &mut t),
            "prop" => crate::replay_gen::replay_prop(&doc, &mut t),
            "version" => crate::replay_gen::replay_version(&doc, &mut t),
            "csv" => crate::replay_csv::replay_csv(&doc, &mut t),
            _ => crate::replay_str::replay(&ctx, &doc, &mut t),
        }
    }
    current.store(0, std::sync::atomic::Ordering::Relaxed);
    println!(
        "{}",
        json!({"summary": {"n": t.n, "executions": t.executions, "mismatches": t.mismatches, "nontrivial": t.nontrivial, "dev": t.dev, "other_printed": t.printed}})
    );
}
