"""Source of MANIFEST.json (bin/mkmanifest writes it).  One entry per claimed property."""

CHECKS = {
    "C13": dict(
        technique="TLA+ loop machine for an arbitrary rule function (Stabilize.tla), TLC exhaustive over all functions on 5/6 states, every behaviour replayed into precis_core::profile::stabilize",
        category="model_checking",
        text="TLC checks the contract (fixed point, orbit membership, <=4 applications, f's own error, Invalid otherwise) and termination for EVERY rule function on 5 (quick) / 6 (thorough) states; each of the 16,807 / 262,144 behaviours is replayed into the real stabilize with a recording closure (two string assignments, owned and borrowed-sub-slice Cow results) and result + call sequence compared. Small-scope complete: the loop inspects at most five orbit elements.",
        design_ref="DESIGN.md 6 C13",
        note="Trusted: TLC/JVM, rustc, the harness' closure construction. The small-scope argument (|D| >= 5 exhibits every behaviour of a loop that looks at <= 5 orbit elements) is an argument, not a proof checked by a tool."),
    "C14": dict(
        technique="per-code-point trace of both string classes validated by TLC against the RFC 8264 decision list (DerivedProperty.tla) applied to signatures recomputed from pinned UCD 6.3.0",
        category="model_checking",
        text="Every scalar value 0..10FFFF (quick) and all 2^32 values (thorough) goes through both classes and both entry points; runs of equal (oracle signature, observables) become trace events and TLC evaluates the specification's decision list on each signature, so any table, ordering or entry-point deviation on any code point is a rejected event. MC_DerivedProperty additionally model-checks the decision list itself over all category signatures (order sensitivity, class agreement).",
        design_ref="DESIGN.md 6 C14, 3.1",
        note="Trusted: our UCD parser and the pinned 6.3.0 files (measured equal to the IANA registry on all code points), Python unicodedata (14.0.0) for HasCompat on code points assigned in 6.3.0, the transcription of the RFC Exceptions table."),
    "C18": dict(
        technique="TLA+ model of the hand-written comparison operators and of binary search (Codepoints.tla), TLC exhaustive over a window, truth tables and searches replayed against precis_core::Codepoints at five bases",
        category="model_checking",
        text="TLC checks trichotomy, coherence of partial_cmp/lt/le/gt/ge/eq and of the mirrored operators for every entry x code point of a 7 (quick) / 8 (thorough) value window, and that every sorted table over the window is a valid binary-search key; all 12 operator results and every search are replayed against the real type with the window placed at 0, 0x7a, 0x10FFFA, 2^31-4 and u32::MAX-6.",
        design_ref="DESIGN.md 6 C18",
        note="Trusted: the argument that an order-only definition is decided by a window containing every relative position of cp to start <= end; TLC, rustc."),
}

NOT_YET = {}
