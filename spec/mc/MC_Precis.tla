------------------------------ MODULE MC_Precis ------------------------------
EXTENDS Precis
\* an arbitrary but fixed function of the arguments stands for Sem
MCSem == [c \in ProfilesC \X Inputs |-> <<"result of", c[1], c[2]>>]
=============================================================================
