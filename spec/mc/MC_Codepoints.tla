---------------------------- MODULE MC_Codepoints ----------------------------
(***************************************************************************)
(* C18: every entry (single, or range with start <= end) against every     *)
(* code point of a window 0..W-1, and every sorted table over the window   *)
(* as a binary-search key.  A window of 7 contains every relative position *)
(* of cp to start <= end (below, adjacent below, equal start, strictly     *)
(* inside, equal end, adjacent above, above), so it is complete for        *)
(* definitions that only use the order of the three numbers.  The replay   *)
(* places the window at several bases of the real u32 range.               *)
(***************************************************************************)
EXTENDS Codepoints, Json

CONSTANT W
Win == 0..(W - 1)
Entries == {Single(c) : c \in Win} \cup {Range(s, e) : s \in Win, e \in Win}
WfEntries == {x \in Entries : WellFormed(x)}

\* all sorted tables over the window, built left to right
RECURSIVE TablesFrom(_)
TablesFrom(lo) == {<<>>} \cup UNION {{<<x>> \o t : t \in TablesFrom(Hi(x) + 1)} : x \in {y \in WfEntries : Lo(y) >= lo}}
Tables == TablesFrom(0)

VARIABLES mode, x, cp, tbl
vars == <<mode, x, cp, tbl>>

Init == \/ mode = "pair"  /\ x \in WfEntries /\ cp \in Win /\ tbl = <<>>
        \/ mode = "table" /\ tbl \in Tables /\ cp \in Win /\ x = Single(0)
Next == UNCHANGED vars
Spec == Init /\ [][Next]_vars

PairOk  == mode = "pair"  => Trichotomy(x, cp) /\ Coherent(x, cp) /\ Mirrored(x, cp)
TableOk == mode = "table" => /\ Sorted(tbl)
                             /\ InTable(tbl, cp) = (\E i \in 1..Len(tbl) : Contains(tbl[i], cp))
                             /\ Find(tbl, cp) # 0 => Contains(tbl[Find(tbl, cp)], cp)

Ops(xx, c) == [eq |-> EqE(xx, c), ne |-> ~EqE(xx, c), mne |-> ~EqC(c, xx), lt |-> LtE(xx, c), le |-> LeE(xx, c), gt |-> GtE(xx, c), ge |-> GeE(xx, c), cmp |-> CmpE(xx, c),
               meq |-> EqC(c, xx), mlt |-> LtC(c, xx), mle |-> LeC(c, xx), mgt |-> GtC(c, xx), mge |-> GeC(c, xx), mcmp |-> CmpC(c, xx)]

Emit == IF mode = "pair"
        THEN PrintT(<<"REPLAY", ToJson([k |-> "cmp", x |-> x, cp |-> cp, ops |-> Ops(x, cp)])>>)
        ELSE PrintT(<<"REPLAY", ToJson([k |-> "search", tbl |-> tbl, cp |-> cp, found |-> Find(tbl, cp)])>>)
=============================================================================
