"""Layer L2 helper: run a model-checking configuration, stream the behaviours TLC emits
(<<"REPLAY", json>> lines) to a file, replay them into the real code with the harness."""
import json
import os

from common import nl_lines, CACHE, ensure_oracle, log, run_harness, run_tlc, tool_error


def write_cfg(text, tag):
    os.makedirs(CACHE, exist_ok=True)
    path = os.path.join(CACHE, "cfg-%d-%s.cfg" % (os.getpid(), tag))
    with open(path, "w") as f:
        f.write(text)
    return path


class McRun:
    def __init__(self):
        self.res = None
        self.replay_path = None
        self.n_replay = 0
        self.other = []


# vacuity guard: the named actions of the small machine modules (TLC -coverage 1); a configuration in which one
# of them is never taken did not exercise what it claims to, and fails as a tool error.  The large string-
# enumerating configurations are not run with -coverage (TLC's coverage collection made a 6 s run exceed 30
# minutes); for them every action is on the path to an emitted behaviour, so the guard is "behaviours were
# emitted, replayed, and some of them are non-trivial" (see replay()).
ACTIONS = {
    "MC_Stabilize": ["Apply", "GiveUp"],
    "MC_Bidi": ["Add"],
    "MC_Precis": ["Begin", "OnceBegin", "OnceEnd", "OnceReady", "End"],
    "MC_Csv": ["AddRow"],
}


def run_mc(module, cfg_text, tag, workers=4, timeout=1800, extra_files=(), heap="6g", expect_violation=None,
           env=None, coverage=None):
    if coverage is None:
        coverage = module in ACTIONS and expect_violation is None
    """runs TLC on spec/mc/<module>.tla with the given cfg; REPLAY lines go to a file"""
    cfg_path = write_cfg(cfg_text, tag)
    out = McRun()
    out.replay_path = os.path.join(CACHE, "replay-%d-%s.ndjson" % (os.getpid(), tag))
    f = open(out.replay_path, "w")

    def cb(t, payload):
        if t == "REPLAY":
            f.write(payload)
            f.write("\n")
            out.n_replay += 1
        else:
            out.other.append((t, payload))

    try:
        res = run_tlc(module, cfg=os.path.basename(cfg_path), modules_dir="mc", extra_files=[cfg_path] + list(extra_files),
                      workers=workers, timeout=timeout, heap=heap, line_cb=cb, env=env, coverage=coverage)
    finally:
        f.close()
        os.remove(cfg_path)
    out.res = res
    if expect_violation is None:
        if res.violated:
            return out     # the caller reports it: an invariant of the specification itself failed
        if res.error or res.rc != 0:
            print(res.out[-3000:])
            tool_error("TLC failed on %s/%s: %s (rc=%s)" % (module, tag, res.error, res.rc))
        if coverage:
            for a in ACTIONS.get(module, []):
                if res.coverage.get(a, (0, 0))[1] == 0:
                    tool_error("vacuity guard: action %s of %s was never taken in configuration %s" % (a, module, tag))
            out.action_counts = {a: res.coverage[a][1] for a in ACTIONS.get(module, []) if a in res.coverage}
    return out


def replay(chk, mc, name, harness_args=(), classify=None, need_oracle=False):
    """replays mc.replay_path through the harness; folds the outcome into chk.
    classify(mismatch) -> None (violation) | finding id (known finding)"""
    args = ["replay", "--in", mc.replay_path, "--seed", str(chk.seed)] + list(harness_args)
    if need_oracle:
        args += ["--oracle", ensure_oracle()]
    out, t = run_harness(args, timeout=3600)
    summary = None
    mism = []
    for line in nl_lines(out):
        if not line.startswith("{"):
            continue
        d = json.loads(line)
        if "summary" in d:
            summary = d["summary"]
        elif "mismatch" in d:
            mism.append(d["mismatch"])
        elif "toolerr" in d:
            tool_error("replay: %s" % d["toolerr"])
    if summary is None:
        tool_error("replay produced no summary for %s" % name)
    if summary["n"] != mc.n_replay:
        tool_error("replay consumed %d of %d behaviours" % (summary["n"], mc.n_replay))
    if mc.n_replay == 0 or summary["nontrivial"] == 0:
        tool_error("vacuity guard: configuration %s emitted %d behaviours, %d non-trivial" % (name, mc.n_replay, summary["nontrivial"]))
    n_known = 0
    n_dev_seen = 0
    for m in mism:
        if m.get("dev"):
            n_dev_seen += 1
        if "toolerr" in m:
            tool_error("replay: %s" % json.dumps(m)[:500])
        fid = classify(m) if classify else None
        if fid:
            chk.known_finding(fid)
            n_known += 1
        else:
            chk.violation("replayed behaviour disagrees with the real code: %s" % json.dumps(m, sort_keys=True)[:600],
                          {"layer": "L2", "config": name, "mismatch": m})
    if summary.get("dev", 0) > n_dev_seen:
        # mismatches explained by a named deviation are only printed up to a cap; count the rest
        extra = summary["dev"] - n_dev_seen
        first_dev = next((m for m in mism if m.get("dev")), None)
        fid = classify(first_dev) if (classify and first_dev) else None
        if fid:
            chk.known_finding(fid, extra)
            n_known += extra
        else:
            tool_error("unclassified deviation mismatches in %s" % name)
    if summary["mismatches"] - summary.get("dev", 0) > summary.get("other_printed", 0):
        chk.violation("%s: %d further mismatches not shown" % (name, summary["mismatches"] - summary.get("dev", 0) - summary.get("other_printed", 0)),
                      {"layer": "L2", "config": name, "note": "overflow of the mismatch list"})
    chk.add_tlc("MC:" + name, mc.res, {"actions_taken": getattr(mc, "action_counts", {}), "behaviours_replayed": summary["n"], "executions_in_real_code": summary["executions"],
                                       "mismatches": summary["mismatches"], "known": n_known, "replay_s": round(t, 1)})
    chk.cov["traces_validated_against_impl"] += summary["n"]
    chk.cov["evaluations"] += summary["executions"]
    chk.cov["distinct_nontrivial"] += summary["nontrivial"]
    # samples: first lines of the replay file
    with open(mc.replay_path) as f:
        for i, line in enumerate(f):
            if i >= 2:
                break
            chk.sample({"layer": "L2", "config": name, "behaviour": json.loads(line)})
    os.remove(mc.replay_path)
    return summary, mism


def spec_violation(chk, mc, name):
    """an invariant of the specification itself is violated in a configuration"""
    chk.violation("the specification's invariant %s fails in configuration %s:\n%s" % (mc.res.violated, name, mc.res.out[-1500:]),
                  {"layer": "MC", "config": name, "invariant": mc.res.violated, "tlc_tail": mc.res.out[-3000:]})
    if mc.replay_path and os.path.exists(mc.replay_path):
        os.remove(mc.replay_path)
