"""Source of MANIFEST.json (bin/mkmanifest writes it).  One entry per claimed property."""

CHECKS = {
    "C13": dict(
        technique="TLA+ loop machine for an arbitrary rule function (Stabilize.tla), TLC exhaustive over all functions on 5/6 states, every behaviour replayed into precis_core::profile::stabilize",
        category="model_checking",
        text="TLC checks the contract (fixed point, orbit membership, <=4 applications, f's own error, Invalid otherwise) and termination for EVERY rule function on 5 (quick) / 6 (thorough) states; each of the 16,807 / 262,144 behaviours is replayed into the real stabilize with a recording closure (two string assignments, owned and borrowed-sub-slice Cow results) and result + call sequence compared. Small-scope complete: the loop inspects at most five orbit elements.",
        design_ref="DESIGN.md 6 C13",
        note="Trusted: TLC/JVM, rustc, the harness' closure construction. The small-scope argument (|D| >= 5 exhibits every behaviour of a loop that looks at <= 5 orbit elements) is an argument, not a proof checked by a tool."),
    "C14": dict(
        technique="per-code-point trace of both string classes validated by TLC against the RFC 8264 decision list (DerivedProperty.tla) applied to signatures recomputed from pinned UCD 6.3.0",
        category="model_checking",
        text="Every scalar value 0..10FFFF (quick) and all 2^32 values (thorough) goes through both classes and both entry points; runs of equal (oracle signature, observables) become trace events and TLC evaluates the specification's decision list on each signature, so any table, ordering or entry-point deviation on any code point is a rejected event. MC_DerivedProperty additionally model-checks the decision list itself over all category signatures (order sensitivity, class agreement).",
        design_ref="DESIGN.md 6 C14, 3.1",
        note="Trusted: our UCD parser and the pinned 6.3.0 files (measured equal to the IANA registry on all code points), Python unicodedata (14.0.0) for HasCompat on code points assigned in 6.3.0, the transcription of the RFC Exceptions table."),
    "C18": dict(
        technique="TLA+ model of the hand-written comparison operators and of binary search (Codepoints.tla), TLC exhaustive over a window, TLAPS proof of trichotomy/coherence/mirroring/monotonicity for all naturals, truth tables and searches replayed against precis_core::Codepoints at five bases and with entry and code point >= 2^31 apart",
        category="model_checking",
        text="TLC checks trichotomy, coherence of partial_cmp/lt/le/gt/ge/eq and of the mirrored operators for every entry x code point of a 7 (quick) / 8 (thorough) value window, and that every sorted table over the window is a valid binary-search key; all 12 operator results and every search are replayed against the real type with the window placed at 0, 0x7a, 0x10FFFA, 2^31-4 and u32::MAX-6.",
        design_ref="DESIGN.md 6 C18",
        note="Trusted: TLC, TLAPS (SMT back end), rustc; at model level the window argument is no longer needed (TLAPS proves the statements for all naturals); at code level the replay covers the window at the stated bases only."),
}

def _mc(technique, text, ref, note):
    return dict(technique=technique, category="model_checking", text=text, design_ref=ref, note=note)


_TRUST = "Trusted: TLC/SANY/JVM, rustc, the pinned UCD copies and our parser of them (measured equal to the IANA registry on every code point), the harness; NFC/NFKC/lowercase are the reference functions (unicode-normalization, char::to_lowercase) called directly."

CHECKS.update({
    "C01": _mc("no-panic sweep of every public operation + TLA+ byte-offset model of the mapping scans (Mappings.tla) checked by TLC; in every replay and trace a panic is an event the specification cannot produce",
               "The specification has no panic result. TLC checks on every string <= 3/4 over 1-4-byte characters and spaces that every slice offset the copy-on-first-change scans use is a character boundary (MappingsAgree); the harness drives every public operation (all profile operations and rules, both compares, allows, 8 context rules at every position incl. usize::MAX) on all strings <= 4/6 over an 11-symbol alphabet and on random UTF-8, classifies every scalar value (thorough: all 2^32 values), and every L2 replay / L3 trace of the other checks rejects a panic as unexplained.",
               "DESIGN.md 6 C01", _TRUST + " Absence of panics is exploration beyond the stated bounds."),
    "C02": _mc("TLA+ loop machine vs declarative 'first offending code point' (StringClass.tla), TLC over all property assignments for user classes and all labels; replay through a harness-defined StringClass using the default allows(); L1 registry; L3 traces",
               "TLC checks, for EVERY assignment of the 7 property values to 2/3 free symbols and every label <= 4, that the default allows loop equals the declarative rule (accept iff every code point valid in context; error = first offender with code-point position and property; Undefined only from a contextual character; MissingContextRule exactly for unregistered contextual characters), and for the standard classes on labels <= 4/5 over every derived-property value that no missing/inapplicable rule is ever reported; all behaviours are replayed with payload comparison; random real labels are validated by TLC against the same operators.",
               "DESIGN.md 6 C02", _TRUST),
    "C03": _mc("declarative three-valued RFC 5892 rules vs implementation-shaped scans (ContextRules.tla), TLC over all labels x positions; every (label, rule, offset) replayed; L1: every code point as inspected neighbour for every table; L3 traces",
               "TLC proves scan = declarative formulation for all labels <= 4/5 over joiner / whole-label / neighbour alphabets at every offset inside and outside, plus the not-applicable / undefined conditions and registry <=> CONTEXTJ/CONTEXTO; the real rule functions are replayed on every enumerated case; L1 walks all 1,114,112 code points through each table-driven rule as the inspected neighbour and through get_context_rule, judged by TLC against Scripts/DerivedJoiningType/UnicodeData 6.3.0.",
               "DESIGN.md 6 C03", _TRUST + " Reading taken for 'a neighbour it must inspect': left-to-right evaluation (ZWNJ at the end of a label after an L/D character is Undefined, not False)."),
    "C04": _mc("profiles as pipelines of named steps executed by a TLA+ step machine (Profiles.tla, MC_Profiles.tla), TLC over all strings of generated alphabets, every behaviour replayed; L3 traces of random real strings validated by TLC",
               "The username pipelines are data in the specification; TLC runs them step by step on every string <= 3/4 over four 9-role alphabets (x 2/4 random instances drawn from the pinned UCD data) checking Agree, PrepareFailurePropagates, NoDrift, OutputClean; each of the ~100k/1M behaviours is replayed into prepare/enforce with full error payload; a swapped, dropped or duplicated step in the code shows up as a replay mismatch. Random real strings are recorded and validated by TLC with oracle attribute tables and NFC facts.",
               "DESIGN.md 6 C04", _TRUST + " Disagreements explained by the named deviation bidi_nsm_strict are the known finding KF-C09."),
    "C05": _mc("OpaqueString pipeline as TLA+ step machine, TLC over all strings of space / compatibility alphabets with replay; L1: every code point through additional_mapping_rule; L3 traces",
               "TLC checks on every string <= 3/4 that only non-ASCII Zs change before NFC (OnlySpacesChange), the scan equals the per-character map, and the machine equals Sem; behaviours replayed; L1 sends all 1,114,112 code points through the additional mapping between two letters against Zs of pinned UnicodeData 16.0.0.",
               "DESIGN.md 6 C05", _TRUST),
    "C06": _mc("Nickname rounds (validate; spaces; NFKC; non-empty) under the stabilize loop as a TLA+ round machine, TLC over strings needing 1-3 applications, replay; L3 traces",
               "TLC runs the round machine on every string <= 4/5 over a space alphabet (incl. characters whose NFKC introduces leading spaces, forcing further applications), a compatibility alphabet (incl. Hangul compatibility jamo whose NFKC is DISALLOWED, so re-validation in every round is observable) and a decomposed-sequence alphabet, checking FixedPoint, Agree, NoDrift; every behaviour replayed; random real strings validated by TLC with NFKC facts over the closure of rounds.",
               "DESIGN.md 6 C06", _TRUST),
    "C07": _mc("compare as equality of comparison forms (Profiles.tla Compare), TLC over all pairs and triples with replay through Profile::compare and PrecisFastInvocation::compare; L3 variant families",
               "TLC checks the result/first-error rule, compare = equality of enforced forms for the three non-iterated profiles, reflexivity, symmetry and transitivity (all triples of strings <= 2) on every ordered pair of strings <= 2/3 over case/width/space, normalization and RTL alphabets; every pair is replayed through both API forms; variant families of real names (case, width, spacing, NFC/NFD/NFKC spellings, invalid members) are recorded as full compare matrices and validated by TLC.",
               "DESIGN.md 6 C07", _TRUST),
    "C08": _mc("OutputClean / NoDrift invariants of the profile machine (MC_Profiles.tla) + closure assumptions validated on the real data by an exhaustive sweep of enforce over every scalar value (and ~76k pairs)",
               "In the model, OutputClean and NoDrift hold on every enforce behaviour provided the universe is closed under lowercase/NFC/NFKC (TLC also shows the invariant fails when the assumption is broken on purpose). The assumption is then checked on the real data: every scalar value alone (thorough: plus all canonical composition pairs, valid cased x marks, compat x space/mark) through enforce of all four profiles, each result re-classified with get_value_from_char and enforced again; every successful enforce in L2/L3 likewise.",
               "DESIGN.md 6 C08", _TRUST + " The 85 Cherokee cases are the recorded known finding KF-C08."),
    "C09": _mc("product automaton of the RFC 5893 monitor and the code's scan over the 23 bidi classes (Bidi.tla, MC_Bidi.tla): finite-state, labels of every length; bounded class sequences instantiated with real code points and replayed; L1 bidi table",
               "Both the six conditions and the scan are regular over classes, so TLC explores their product exhaustively for labels of EVERY length (94k states): the RFC-shaped scan equals the rule, and every label on which the scan as coded differs has the shape of the known finding (RFC accepts, code rejects, non-NSM after NSM). Bounded sequences (<=3 over 23 classes, <=5/6 over 9 representatives) are instantiated with 16.0.0-assigned code points and sent through directionality_rule of both profiles; L1 checks the observable bidi group of every code point against UnicodeData 16.0.0.",
               "DESIGN.md 6 C09", _TRUST + " L and classes outside the rule's vocabulary are indistinguishable through the rule (and in the RFC)."),
    "C10": _mc("per-character lowercase map vs copy-on-first-change scan with trigger predicate (Mappings.tla), TLC over all strings of a cased alphabet, replay; L1: every code point alone / after 'A' / before 'A' against char::to_lowercase",
               "TLC checks CaseMapImpl = CaseMap (position independence) on every string <= 4/5 over lowercase, uppercase, titlecase, one-to-many (U+0130), 4-byte cased, sigma and uncased characters; replayed through case_mapping_rule of both profiles and UsernameCaseMapped::enforce; L1 compares all 1,114,112 code points in three positions with char::to_lowercase called directly.",
               "DESIGN.md 6 C10", _TRUST),
    "C11": _mc("per-character width map vs copy-on-first-change scan (Mappings.tla), TLC with idempotence, replay; L1: every code point in three positions against <wide>/<narrow> of pinned UnicodeData 16.0.0",
               "TLC checks scan = map and idempotence on every string <= 4/5 over fullwidth / halfwidth / ideographic space / other compatibility / multi-byte characters; replayed through width_mapping_rule and prepare; L1 judges all 1,114,112 code points alone, after 'a' and before 'a'.",
               "DESIGN.md 6 C11", _TRUST),
    "C12": _mc("two-phase Nickname space scan with byte offsets and begin/prev_space registers vs map+strip+collapse, and OpaqueString map (Mappings.tla), TLC over all strings of spaces x 1-4-byte characters, replay; L1 all Zs / non-Zs",
               "TLC checks on every string <= 5/6 over {SP, 2-byte Zs, 3-byte Zs, 1/2/3/4-byte non-spaces} that find_disallowed_space + trim_spaces (modelled with UTF-8 byte offsets) equals the declarative rule, slices on character boundaries, and both rules are idempotent; all behaviours replayed through both additional_mapping_rule and enforce; L1 covers all 17 Zs and every non-Zs code point.",
               "DESIGN.md 6 C12", _TRUST),
    "C15": _mc("generator state machines stepping per UnicodeData line (TableGen.tla), TLC over every well-formed input of a small universe; each input rendered to a real UnicodeData.txt and run through the real precis_tools generators, emitted source parsed and searched",
               "TLC checks, for every well-formed input over 6/7 code points x 3 attribute values (any First/Last placement, any run structure), that every table (set + run merge, unassigned gaps, virama, bidi run compression, width mapping) denotes exactly what the input assigns, is binary-searchable and single-valued; all ~11k/60k inputs are rendered at 4 bases and pushed through RustCodeGen::generate_code, the emitted Rust parsed into precis_core::Codepoints and searched with the library's own expression; L1 covers the two pinned data sets code point by code point; the thorough tier additionally builds the real crates on two seeded variations of the UCD files (~750 changes each) and judges every code point against an oracle computed from the varied files (independent of the layout of the generated tables); malformed First/Last structure and the property-file generators are modelled and replayed as well.",
               "DESIGN.md 6 C15, 11.2", _TRUST + " Script / property-file generators share UcdTableGen's set path and are covered on the pinned files by L1 only."),
    "C16": _mc("session machine with Once cells of the lazy statics (Precis.tla) model-checked for safety and liveness; API forms x argument kinds replayed on all model strings; multi-threaded fresh-process traces validated by TLC with a cross-thread memo",
               "Design level: TLC explores every interleaving of 3 threads x 1 call and 2 x 2 (thorough 3 x 2) over the Once cells (one initializer, static use only when ready, every call returns). Code level: every string <= 3/4 of two alphabets goes through static / long-lived / fresh x &str / String / Cow::Borrowed / Cow::Owned and must equal the reference; 6/60 fresh processes x 8 barrier-released threads race on the first use of a static profile, TLC judges each result against Sem and requires equal calls to give equal results across threads, forms, argument kinds, processes and histories.",
               "DESIGN.md 6 C16", _TRUST + " Schedules are those the OS produced (exploration); the interleaving space is covered at design level only."),
    "C17": _mc("token-level model of the registry row parser and line iterator (Csv.tla), TLC over a catalogue of row shapes and corruptions with files replayed through CsvLineParser; random rows recorded and validated by TLC (Trace_Csv.tla)",
               "TLC checks round trip for every well-formed shape, rejection of every corruption, header skip, one item per data line in order and error line numbers, for all files of <= 2/3 rows; every file is written out and read through CsvLineParser::from_path and PrecisDerivedProperty::from_str; 20k/300k random rows (all code points and ranges, 7 names, 49 pairs, descriptions with commas and non-ASCII, corruptions) are recorded and judged by TLC; the shipped registry is re-read against an independent parse.",
               "DESIGN.md 6 C17", _TRUST + " Malformed code points are limited to unambiguous ones; lower-case hex, sign prefixes, reversed ranges and surrogate code points are not asserted either way."),
})

NOT_YET = {}


# ---- mechanisms added after the blind rounds 4 and 5 (DESIGN.md 11.2, 11.5) -------------------------------------------
_LAWS = (" Beyond the model's string length: the laws PowerLaw / PadLaw / CompFormPadLaw of Profiles.tla (model-checked as invariants of "
         "MC_Profiles on every string <= 3) are applied to the real code on inputs of up to 16 KiB (thorough: 64 KiB) whose unit is judged by TLC.")
_HIST = (" History and schedules: the echo driver (every string through one profile / class and immediately afterwards through another, all "
         "forms, judged by TLC) and a race run (fresh processes x 16 barrier-released threads against the sequential reference).")
_GUARD = " Every replay is guarded: a behaviour on which the real code kills the process or does not return is confirmed alone and reported as a violation."
for _id in ("C04", "C05", "C06", "C08", "C10", "C11", "C12"):
    CHECKS[_id]["text"] += _LAWS + _HIST + _GUARD
CHECKS["C07"]["text"] += (" Also: compare on padded respelled pairs (CompFormPadLaw), the per-code-point layer for the mapping rules that define the "
                          "equivalence classes, borrowed operands passed as views of one buffer when one contains the other." + _HIST + _GUARD)
CHECKS["C01"]["text"] += (_LAWS + " Deep sweep: 118 strings with runs of 6,144 / 16,384 equal characters next to contextual characters through every "
                          "operation on a 192 KiB stack in a child process; the death of the child (stack overflow, abort) is a reported case." + _GUARD)
CHECKS["C02"]["text"] += " CtxPadLaw / AllowsPadLaw of MC_Context are applied to the real code with up to 70,000 padding characters." + _GUARD
CHECKS["C03"]["text"] += " CtxPadLaw / AllowsPadLaw of MC_Context are applied to the real code with up to 70,000 padding characters (offsets beyond 65,535)." + _GUARD
CHECKS["C14"]["text"] += (" Order sweep: eleven call orders incl. one lookup per visit and code points sharing their low 8/16/20 bits asked back to back; "
                          "lockstep sweep: fresh processes whose threads make the first lookups of every code point at the same time.")
CHECKS["C15"]["text"] += (" Every generation is repeated over an existing longer output file (bytes must not differ), every category / value is also registered "
                          "under a second table name, a parsed aggregator is emitted twice, and model property files are written in all five formats the build scripts read.")
CHECKS["C16"]["text"] += (" Race driver: 124 (thorough 1,540) fresh processes x 16 barrier-released threads on 136 labels of different scripts / mapping paths / sizes "
                          "(incl. 256..700-byte non-normalized ones), string classes included, every result compared with the sequential reference whose inputs TLC judges; "
                          "echo driver; lockstep and alias orders in the order sweep; compare operands as views of one buffer." + _GUARD)
CHECKS["C17"]["text"] += (" Synthetic registry files through the line parser: descriptions of 0..200,000 bytes (every length around 4096 and 8192), malformed rows with "
                          "junk of every length 1..120 of 1- to 4-byte characters in both columns, errors must carry the physical line number.")
CHECKS["C18"]["text"] += _GUARD
CHECKS["C13"]["text"] += _GUARD

# ---- round 6 ---------------------------------------------------------------------------------------------------------------
CHECKS["C02"]["text"] += " Every ordered pair of the 27 contextual code points in passing and failing contexts, and 0..300 fillers between a contextual code point and what decides its rule (drivers ctxpairs / ctxlimits, judged by TLC)."
CHECKS["C03"]["text"] += " Every ordered pair of the 27 contextual code points in passing and failing contexts, and 0..300 fillers between a contextual code point and what decides its rule (drivers ctxpairs / ctxlimits, judged by TLC)."
CHECKS["C13"]["text"] += " The two rule sets Nickname binds to stabilize are exercised one after the other on the same strings (echo trace: enforce, then compare of the result with its respellings), judged by TLC."
CHECKS["C17"]["text"] += " The parser as an Iterator: nth, skip, count, last, step_by on fresh parsers must deliver the items repeated next() delivers; descriptions with quotation marks."
CHECKS["C18"]["text"] += " Code level, real tables: every code point as search key of the anchored look-ups (derived-property tables, context tables, Bidi_Class, width mapping, space separators) through the per-code-point trace judged by TLC."
for _id in ("C01", "C06", "C08"):
    CHECKS[_id]["text"] += " Expanders: the code points of maximal NFKC / NFC / lower-case expansion (found by computation) repeated 1..64 times."
# seventh round
CHECKS["C13"]["text"] += (" Rule functions may be re-entrant: in the replay the recording closure is also implemented on top of a nested stabilize of its own "
                          "argument and after a nested three-application stabilize plus a Nickname enforcement; result and call sequence must not change.")
CHECKS["C04"]["text"] += " A fifth alphabet puts ZWNJ / ZWJ next to virama, transparent marks and joining letters inside usernames."
CHECKS["C15"]["text"] += (" The model's three attribute values stand for real Bidi_Class names through an injective renaming that rotates through all 23 classes, "
                          "so every class name must come back from the real generator as itself. Beyond the property: Version.tla (UNICODE_VERSION generator), "
                          "every text up to length 5/6 over 6 characters replayed, disagreements recorded as notes only.")
