//! C08 sweep: every scalar value alone, and pairs drawn from the interesting sets, through
//! enforce of all four profiles; every successful result is re-classified with the profile's
//! own string class and enforced again (no forbidden code point, no drift).

use crate::api::*;
use crate::oracle::{Oracle, N};
use crate::replay_str::c08_check;
use crate::util::*;
use serde_json::{json, Value};
use std::sync::Arc;
use unicode_normalization::char::{canonical_combining_class, decompose_canonical};

fn check_string(oracle: &Oracle, s: &str, problems: &mut Vec<Value>, counts: &mut [u64; 3]) {
    for p in PROFILES.iter() {
        counts[0] += 1;
        let r = call_profile(p, "enforce", &[s.to_string()]);
        if let Some(o) = r.get("ok") {
            counts[1] += 1;
            let out = cps_to_string(o).unwrap();
            if out != s {
                counts[2] += 1;
            }
            if let Some(m) = c08_check(p, &out) {
                if problems.len() < 500_000 {
                    problems.push(json!({"p": p, "in": string_to_cps(s), "out": o, "what": m}));
                }
            } else if let Some((i, c)) = out.chars().enumerate().find(|(_, c)| matches!(oracle.idp_of(*c as u32), "DISALLOWED" | "UNASSIGNED")) {
                // the library's own classification of the output can be fooled by state the enforce call left behind:
                // the derived property computed from the pinned UCD copies decides as well
                if problems.len() < 500_000 {
                    problems.push(json!({"p": p, "in": string_to_cps(s), "out": o,
                                         "what": {"c08": "forbidden", "cp": c as u32, "pos": i, "prop": oracle.idp_of(c as u32), "by": "oracle"}}));
                }
            }
        } else if r.get("panic").is_some() && problems.len() < 500_000 {
            problems.push(json!({"p": p, "in": string_to_cps(s), "what": r}));
        }
    }
}

pub fn main(args: &[String]) {
    silence_panics();
    let db = arg_value(args, "--oracle").unwrap_or_else(|| tool_error("--oracle"));
    let pairs_small = args.iter().any(|a| a == "--pairs-small");
    let pairs = args.iter().any(|a| a == "--pairs") || pairs_small;
    let seed = arg_u64(args, "--seed", 1);
    let threads = arg_u64(args, "--threads", 12) as u32;
    let o = Arc::new(Oracle::load(&db));
    let n = N as u32;
    let chunk = (n + threads - 1) / threads;
    let mut hs = Vec::new();
    for t in 0..threads {
        let lo = t * chunk;
        let hi = std::cmp::min(n - 1, lo + chunk - 1);
        let o = o.clone();
        hs.push(std::thread::spawn(move || {
            silence_panics();
            let mut problems = Vec::new();
            let mut counts = [0u64; 3];
            for cp in lo..=hi {
                if let Some(c) = char::from_u32(cp) {
                    check_string(&o, &c.to_string(), &mut problems, &mut counts);
                    // next to the code points that share its low 16 bits (a truncated cache tag answers one for the other)
                    if cp < 0x10000 {
                        for other in [cp + 0x100000, cp + 0x10000] {
                            if let Some(d) = char::from_u32(other) {
                                check_string(&o, &format!("{}{}", c, d), &mut problems, &mut counts);
                                check_string(&o, &format!("{}{}", d, c), &mut problems, &mut counts);
                            }
                        }
                    }
                }
            }
            (problems, counts)
        }));
    }
    let mut problems: Vec<Value> = Vec::new();
    let mut counts = [0u64; 3];
    for h in hs {
        let (p, c) = h.join().unwrap_or_else(|_| tool_error("c08 worker died"));
        problems.extend(p);
        for i in 0..3 {
            counts[i] += c[i];
        }
    }
    let mut pair_count = 0u64;
    if pairs {
        // all canonical composition pairs of the normalization data
        let mut bases: Vec<(u32, u32)> = Vec::new();
        for cp in 0..n {
            if let Some(c) = char::from_u32(cp) {
                let mut d = Vec::new();
                decompose_canonical(c, |x| d.push(x as u32));
                if d.len() == 2 && d[0] != cp {
                    bases.push((d[0], d[1]));
                }
            }
        }
        // valid cased letters x valid combining marks (seeded sample of the marks)
        let mut rng = Rng::new(seed);
        let cased: Vec<u32> = (0..n)
            .filter(|cp| o.lower16.contains_key(cp) && o.idp_of(*cp) == "PVALID" && (!pairs_small || *cp < 0x250 || (0x391..0x3aa).contains(cp)))
            .collect();
        let marks: Vec<u32> = (0..n)
            .filter(|cp| o.idp_of(*cp) == "PVALID" && char::from_u32(*cp).map(|c| canonical_combining_class(c) != 0).unwrap_or(false))
            .collect();
        let mut some_marks: Vec<u32> = vec![0x300, 0x301, 0x307, 0x308, 0x30a, 0x30c, 0x323, 0x327, 0x331, 0x345, 0x5b8, 0x64e, 0x94d, 0x3099];
        for _ in 0..(if pairs_small { 0 } else { 24 }) {
            some_marks.push(*rng.pick(&marks));
        }
        if pairs_small {
            bases.truncate(0);
        }
        for (a, b) in bases.iter() {
            check_string(&o, &vec_to_string(&[*a, *b]), &mut problems, &mut counts);
            pair_count += 1;
        }
        for a in cased.iter() {
            for b in some_marks.iter() {
                check_string(&o, &vec_to_string(&[*a, *b]), &mut problems, &mut counts);
                pair_count += 1;
            }
        }
        // compatibility characters of FreeformClass next to a space and a mark
        let compat_bit = 1u16 << o.sig_bits.iter().position(|b| b == "compat").unwrap();
        for cp in 0..n {
            if pairs_small {
                break;
            }
            if o.sig[cp as usize] & compat_bit != 0 && o.idp_of(cp) == "ID_DIS" {
                for other in [0x20u32, 0x301, 0x3099, 0x1161] {
                    check_string(&o, &vec_to_string(&[cp, other]), &mut problems, &mut counts);
                    check_string(&o, &vec_to_string(&[other, cp]), &mut problems, &mut counts);
                    pair_count += 2;
                }
            }
        }
    }
    for p in problems.iter() {
        println!("{}", json!({ "problem": p }));
    }
    println!(
        "{}",
        json!({"summary": {"enforce_calls": counts[0], "accepted": counts[1], "changed": counts[2], "pairs": pair_count, "problems": problems.len()}})
    );
}
