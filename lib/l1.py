"""Layer L1: per-code-point trace of the real library validated by TLC (Trace_CodePoints.tla).
The result is shared by several properties and cached per (repository content, framework)."""
import json
import os

from common import (nl_lines, CACHE, Lock, cached_json, ensure_oracle, framework_hash, log, repo_hash, run_harness, run_tlc,
                    tool_error)

FIELD_PROPS = {
    "id": ["C14", "C02", "C18"], "idc": ["C14", "C02", "C18"], "ff": ["C14", "C02", "C18"], "ffc": ["C14", "C02", "C18"], "ns": ["C14"],
    "reg": ["C03", "C02"], "regdom": ["C03", "C02"], "vir": ["C03", "C02", "C18"], "greek": ["C03", "C02", "C18"], "hebrew": ["C03", "C02", "C18"],
    "kana": ["C03", "C02", "C18"], "ld": ["C03", "C02", "C18"], "rd": ["C03", "C02", "C18"],
    "mdl": ["C03", "C02"], "mdr": ["C03", "C02"], "aidx": ["C03", "C02"], "eaidx": ["C03", "C02"], "own": ["C03", "C02"],
    "wm1": ["C11", "C04", "C07", "C18"], "wm2": ["C11", "C04", "C07", "C18"], "wm3": ["C11", "C04", "C07", "C18"], "wm4": ["C11", "C04", "C07"], "wm5": ["C11", "C04", "C07"], "osp4": ["C12", "C05", "C07"],
    "lc1": ["C10", "C04", "C07"], "lc2": ["C10", "C07"], "lc3": ["C10", "C04", "C07"], "lc4": ["C10", "C04", "C07"], "lc5": ["C10", "C06", "C07"],
    "wm6": ["C11", "C04", "C07"], "wm7": ["C11", "C04", "C07"], "osp5": ["C12", "C05", "C07"], "osp6": ["C12", "C05", "C07"], "nsp4": ["C12", "C06", "C07"], "nsp5": ["C12", "C06", "C07"],
    "osp": ["C12", "C05", "C07", "C18"], "nsp": ["C12", "C06", "C07", "C18"], "osp2": ["C12", "C05", "C07"], "nsp2": ["C12", "C06", "C07"], "osp3": ["C12", "C05", "C07"], "nsp3": ["C12", "C06", "C07"],
    "pp1": ["C04", "C11", "C02"], "pp2": ["C04", "C11", "C02"], "pp3": ["C05", "C02"], "pp4": ["C06", "C02"],
    "al1": ["C02", "C03", "C14"], "al2": ["C02", "C03", "C14"], "al3": ["C02", "C03", "C14"], "al4": ["C02", "C03", "C14"],
    "bidi1": ["C09", "C04", "C18"], "bidi2": ["C09", "C04", "C18"], "bidi3": ["C09", "C04", "C18"], "bidi4": ["C09", "C04", "C18"], "bidi5": ["C09", "C04", "C18"],
}
TOOL_FIELDS = {"tiling", "sigexc", "sigascii", "sigidp"}


def _build(full32, seed):
    oracle = ensure_oracle()
    trace = os.path.join(CACHE, "l1-trace-%d.ndjson" % os.getpid())
    try:
        args = ["l1", "--oracle", oracle, "--out", trace, "--seed", str(seed)]
        if full32:
            args.append("--full32")
        out, t_h = run_harness(args)
        info = json.loads(nl_lines(out)[-1])
        if info["events"] > 25000:
            # pathological run structure (e.g. a change that makes a probe fail for every other code point):
            # TLC judges one representative run per distinct (signature, observables) class; the runs are
            # merged by the recorder only when adjacent, so classes are far fewer than runs
            seen = set()
            kept = []
            with open(trace) as f:
                for i, ln in enumerate(f):
                    if i == 0:
                        kept.append(ln)
                        continue
                    k = ln[ln.index('"sig"'):] if '"sig"' in ln else ln
                    if k in seen:
                        continue
                    seen.add(k)
                    kept.append(ln)
            # keep tiling checkable: the reduced trace is validated with tiling switched off
            with open(trace, "w") as f:
                f.writelines(kept)
            info["reduced_to_classes"] = len(kept)
            if len(kept) > 60000:
                tool_error("L1 trace has %d distinct classes; too many to validate" % len(kept))
        res = run_tlc("Trace_CodePoints", modules_dir="trace", env={"TRACE": trace}, workers=1, timeout=1200)
        if res.error or res.rc != 0:
            print(res.out[-3000:])
            tool_error("TLC failed on the L1 trace: %s" % res.error)
        bad = None
        tiled = None
        for tag, payload in res.printed:
            if tag == "BAD":
                bad = json.loads(payload)
            elif tag == "TILED":
                tiled = payload.strip() == "TRUE"
        if info.get("reduced_to_classes"):
            tiled = True
            bad = [b for b in bad if b["fields"] != ["tiling"]]
            for b in bad:
                b["fields"] = [f for f in b["fields"] if f != "tiling"]
        if bad is None or tiled is None:
            print(res.out[-3000:])
            tool_error("L1 trace not fully consumed by TLC")
        lines = nl_lines(open(trace).read())
        events = []
        stats = {"runs": 0, "sigs": set(), "wm": 0, "lower": 0, "zs": 0, "bidi_nonL": 0, "ctx": 0, "panics": 0}
        samples = []
        for i, ln in enumerate(lines):
            e = json.loads(ln)
            if e["ev"] != "cp":
                continue
            stats["runs"] += 1
            s = e["sig"]
            stats["sigs"].add((s["exc"], tuple(s["cat"])))
            stats["wm"] += s["wm"] != -1
            stats["lower"] += s["lower"] != [-1]
            stats["zs"] += bool(s["zs"])
            stats["bidi_nonL"] += s["bidi"] != "L"
            stats["ctx"] += bool(s["vir"] or s["jt"] != "U" or s["sc"] or e["obs"]["reg"])
            stats["panics"] += '"panic"' in ln
            if len(samples) < 3 and (s["wm"] != -1 or s["lower"] != [-1]):
                samples.append(e)
        stats["sigs"] = len(stats["sigs"])
        bad_events = []
        for b in bad:
            e = json.loads(lines[b["l"] - 1])
            bad_events.append({"fields": b["fields"], "event": e})
        panics = []
        for ln in lines:
            if '"panic"' in ln or '"PANIC"' in ln:
                panics.append(json.loads(ln))
        return {"info": info, "bad": bad_events, "panics": panics[:50], "tiled": tiled, "stats": stats, "samples": samples,
                "tlc": {"distinct": res.distinct, "generated": res.generated, "depth": res.depth, "wall": res.wall},
                "harness_s": t_h, "first_events": [json.loads(l) for l in lines[1:3]]}
    finally:
        try:
            os.remove(trace)
        except OSError:
            pass


def l1_result(full32=False, seed=1):
    name = "l1-%s-%s-%s-%d.json" % (repo_hash(), framework_hash(), "full32" if full32 else "std", seed)
    return cached_json(name, lambda: _build(full32, seed))


def apply_l1(chk, fields_prefixes, full32=False, nontrivial_key=None):
    """fold the L1 verdict for the given observables into a Check"""
    r = l1_result(full32, chk.seed)
    if not r["tiled"]:
        tool_error("L1 runs do not tile the code space")
    for b in r["bad"]:
        if set(b["fields"]) & TOOL_FIELDS:
            tool_error("L1 oracle/spec inconsistency: %s at %s" % (b["fields"], b["event"].get("lo")))
    mine = []
    for b in r["bad"]:
        fs = [f for f in b["fields"] if chk.prop in FIELD_PROPS.get(f, []) and any(f.startswith(p) for p in fields_prefixes)]
        if fs:
            mine.append((fs, b["event"]))
    # a panic while probing is a wrong observable of every property that looks at this layer
    for pe in r["panics"][:3]:
        if chk.prop != "C01":      # C01 reports them itself, with its own wording
            chk.violation("panic while probing code points U+%04X..U+%04X through the public API" % (pe.get("lo", 0), pe.get("hi", 0)),
                          {"layer": "L1", "fields": ["panic"], "event": pe})
    for fs, e in mine[:10]:
        chk.violation("code points U+%04X..U+%04X: observable(s) %s differ from the specification's function of the oracle signature"
                      % (e["lo"], e["hi"], ",".join(fs)), {"layer": "L1", "fields": fs, "event": e})
    chk.cov["states"] += r["tlc"]["distinct"]
    chk.cov["transitions"] += r["tlc"]["generated"]
    chk.cov["traces_validated_against_impl"] += 1
    chk.cov["evaluations"] += r["info"]["events"]
    chk.cov["distinct_nontrivial"] += r["stats"].get(nontrivial_key or "runs", 0)
    chk.add_part("L1", {"events": r["info"]["events"], "scalar_runs": r["info"]["scalar_runs"], "full32": r["info"]["full32"],
                        "code_points": 0x110000 - 2048, "stats": r["stats"], "tlc": r["tlc"], "mismatching_events": len(r["bad"]),
                        "mine": len(mine)})
    for s in r["samples"][:2]:
        chk.sample({"layer": "L1", "event": s})
    return r
