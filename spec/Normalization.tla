---------------------------- MODULE Normalization ----------------------------
(***************************************************************************)
(* Unicode normalization forms C and KC (UAX #15), as the library uses     *)
(* them through the unicode-normalization crate.                           *)
(*                                                                         *)
(* Two modes, selected by the world W:                                     *)
(*  W.mode = "algo"  - the real algorithm (full decomposition, canonical   *)
(*     reordering, canonical composition with blocking) over the           *)
(*     normalization data of the universe: W.u[c].ccc, .cdec (full         *)
(*     canonical decomposition), .kdec (full compatibility decomposition)  *)
(*     and W.comp (primary composites: <<starter, c>> -> composite).       *)
(*     Used for model checking over generated alphabets.                   *)
(*  W.mode = "facts" - look-ups in a finite table of facts recorded next   *)
(*     to an implementation trace: W.facts[s] = [nfc |-> .., nfkc |-> ..]. *)
(*     Used for trace validation on arbitrary real strings.                *)
(***************************************************************************)
EXTENDS Base

Ccc(W, c) == W.u[c].ccc

\* ---- canonical reordering: stable insertion by combining class ------------
\* insert c at the end of s, moving it left over characters with a strictly greater,
\* non-zero combining class (starters and equal classes block)
RECURSIVE InsertMark(_, _, _)
InsertMark(W, s, c) ==
  IF s = <<>> THEN <<c>>
  ELSE LET last == s[Len(s)] IN
       IF Ccc(W, c) # 0 /\ Ccc(W, last) > Ccc(W, c)
       THEN Append(InsertMark(W, SubSeq(s, 1, Len(s) - 1), c), last)
       ELSE Append(s, c)

RECURSIVE ReorderFrom(_, _, _, _)
ReorderFrom(W, s, i, acc) == IF i > Len(s) THEN acc ELSE ReorderFrom(W, s, i + 1, InsertMark(W, acc, s[i]))
Reorder(W, s) == ReorderFrom(W, s, 1, <<>>)

NFD(W, s)  == Reorder(W, FlatMap(LAMBDA c : W.u[c].cdec, s))
NFKD(W, s) == Reorder(W, FlatMap(LAMBDA c : W.u[c].kdec, s))

\* ---- canonical composition --------------------------------------------------
\* registers: out (finished prefix), st (current starter or -1), buf (non-starters
\* after the starter), last (combining class of the last buffered character, -1 if none)
HasComp(W, a, b) == <<a, b>> \in DOMAIN W.comp
RECURSIVE ComposeFrom(_, _, _, _, _, _, _)
ComposeFrom(W, s, i, out, st, buf, last) ==
  IF i > Len(s) THEN (IF st = -1 THEN out \o buf ELSE out \o <<st>> \o buf)
  ELSE LET c == s[i]  cc == Ccc(W, c) IN
       IF st = -1
       THEN (IF cc = 0 THEN ComposeFrom(W, s, i + 1, out \o buf, c, <<>>, -1)
                       ELSE ComposeFrom(W, s, i + 1, out, -1, Append(buf, c), cc))
       ELSE IF (last = -1 \/ last < cc) /\ HasComp(W, st, c)
            THEN ComposeFrom(W, s, i + 1, out, W.comp[<<st, c>>], buf, last)
            ELSE IF cc = 0
                 THEN ComposeFrom(W, s, i + 1, out \o <<st>> \o buf, c, <<>>, -1)
                 ELSE ComposeFrom(W, s, i + 1, out, st, Append(buf, c), cc)
Compose(W, s) == ComposeFrom(W, s, 1, <<>>, -1, <<>>, -1)

NfcAlgo(W, s)  == Compose(W, NFD(W, s))
NfkcAlgo(W, s) == Compose(W, NFKD(W, s))

\* ---- the two modes ------------------------------------------------------------
HasFact(W, s) == s \in DOMAIN W.facts
NFC(W, s)  == IF W.mode = "facts" THEN W.facts[s].nfc  ELSE NfcAlgo(W, s)
NFKC(W, s) == IF W.mode = "facts" THEN W.facts[s].nfkc ELSE NfkcAlgo(W, s)
=============================================================================
