//! Long strings: the power law of Profiles.tla (`PowerLaw`, model-checked for every short string) applied to the
//! real code.  A unit u = h . mid . t with INERT head and tail (no step can change them, join them with a neighbour or
//! look across them) satisfies  op(u^n) = op(u)^n  (errors: the same error) for every profile operation and rule.
//! The result for u itself is judged by TLC (the units are written out and recorded as an L3 trace); this driver
//! holds the code to the law for u^n with n chosen so that the byte length of the input crosses 2^k boundaries
//! (64 .. 65536) - buffer sizes, block-wise scans, counters of 8 or 16 bits.  Powers are periodic (every window of the
//! input looks alike), so the second law, `PadLaw`, is used as well: op(h^i . u . t^j) = h^i . op(u) . t^j, which puts
//! the part that matters at an arbitrary byte offset of an otherwise inert string.

use crate::api::*;
use crate::oracle::Oracle;
use crate::record::Pools;
use crate::util::*;
use serde_json::{json, Value};
use unicode_normalization::char::{canonical_combining_class, compose};
use unicode_normalization::UnicodeNormalization;

const CANDIDATES: [u32; 16] = [
    0x61, 0x7a, 0x71, 0x37, 0x30, 0x436, 0x44f, 0x65e5, 0x672c, 0x3042, 0x3093, 0x5d0, 0x5ea, 0x628, 0x3b1, 0xe01,
];

const PAD_BYTES: [usize; 26] = [0, 1, 7, 8, 9, 15, 16, 17, 31, 32, 33, 63, 64, 65, 255, 256, 257, 1023, 1024, 2047, 2048, 2049, 4095, 4096, 4097, 16384];

const MIDS: [&str; 40] = [
    "", "b", "B", "\u{e9}", "e\u{301}", "\u{301}", "\u{301}\u{323}", "\u{323}\u{301}", " ", "  ", " \u{3000} ", "\u{a0}", "\t", "\u{ff21}", "\u{ff71}\u{ff9e}",
    "\u{3a3}", "\u{3a3} ", "\u{130}", "\u{2163}", "\u{b5}", "\u{fb01}", "\u{1e9e}", "\u{1f600}", "\u{10400}", "\u{13a0}", "\u{7f}", "\u{378}", "\u{200d}",
    "\u{94d}\u{200d}", "l\u{b7}l", "\u{b7}", "\u{661}", "\u{661}\u{6f1}", "\u{30fb}", "\u{5d0}\u{5b8}\u{5d1}", "1\u{5d0}", "\u{1100}\u{1161}", "\u{ac00}\u{11a8}",
    "\u{f900}", "\u{2126}",
];

fn inert(o: &Oracle, cp: u32) -> bool {
    let c = match char::from_u32(cp) {
        Some(c) => c,
        None => return false,
    };
    let s = c.to_string();
    let idp = o.idp_of(cp);
    canonical_combining_class(c) == 0
        && s.nfd().collect::<String>() == s
        && s.nfkd().collect::<String>() == s
        && c.to_lowercase().collect::<String>() == s
        && !o.wm.contains_key(&cp)
        && !o.zs[cp as usize]
        && o.jt[cp as usize] != b'T'
        && o.bidi_of(cp) != "NSM"
        && idp == "PVALID"
        && (0..0x110000u32).filter_map(char::from_u32).all(|a| compose(a, c).is_none())
}

fn expected(r1: &Value, n: usize) -> Value {
    match r1.get("ok").and_then(|o| o.as_array()) {
        Some(cps) => {
            let mut v = Vec::with_capacity(cps.len() * n);
            for _ in 0..n {
                v.extend(cps.iter().cloned());
            }
            json!({ "ok": v })
        }
        None => r1.clone(),
    }
}

fn short(v: &Value) -> Value {
    let s = v.to_string();
    if s.len() > 200 {
        json!(format!("{}... ({} bytes of JSON)", s.chars().take(200).collect::<String>(), s.len()))
    } else {
        v.clone()
    }
}

pub fn main(args: &[String]) {
    silence_panics();
    let db = arg_value(args, "--oracle").unwrap_or_else(|| tool_error("--oracle"));
    let dir = arg_value(args, "--dir").unwrap_or_else(|| tool_error("--dir"));
    let seed = arg_u64(args, "--seed", 1);
    let n_random = arg_u64(args, "--random-units", 60);
    let max_bytes = arg_u64(args, "--max-bytes", 70_000) as usize;
    let split = |v: Option<String>, d: &str| -> Vec<String> { v.unwrap_or_else(|| d.to_string()).split(',').map(|x| x.to_string()).collect() };
    let profiles = split(arg_value(args, "--profiles"), "UCM,UCP,OPQ,NICK");
    let ops = split(
        arg_value(args, "--ops"),
        "prepare,enforce,width_mapping_rule,additional_mapping_rule,case_mapping_rule,normalization_rule,directionality_rule",
    );
    let o = Oracle::load(&db);
    for cp in CANDIDATES.iter() {
        if !inert(&o, *cp) {
            tool_error(&format!("U+{:04X} is not inert: the candidate list of long.rs is wrong", cp));
        }
    }
    let pools = Pools::new(&o);
    let mut rng = Rng::new(seed);
    let mut units: Vec<String> = Vec::new();
    let ch = |cp: u32| char::from_u32(cp).unwrap();
    for (i, mid) in MIDS.iter().enumerate() {
        // every mid between two different pairs of inert characters (one pair fixed, one moving)
        for (h, t) in [(0x61u32, 0x7au32), (CANDIDATES[(i * 3 + 2) % CANDIDATES.len()], CANDIDATES[(i * 5 + 7) % CANDIDATES.len()])] {
            units.push(format!("{}{}{}", ch(h), mid, ch(t)));
        }
    }
    for _ in 0..n_random {
        let h = *rng.pick(&CANDIDATES);
        let t = *rng.pick(&CANDIDATES);
        units.push(format!("{}{}{}", ch(h), pools.string(&mut rng, 5), ch(t)));
    }
    for cp in CANDIDATES.iter() {
        units.push(ch(*cp).to_string());
    }
    units.sort();
    units.dedup();
    std::fs::create_dir_all(&dir).ok();
    std::fs::write(format!("{}/units.ndjson", dir), units.iter().map(|s| string_to_cps(s).to_string() + "\n").collect::<String>())
        .unwrap_or_else(|e| tool_error(&e.to_string()));
    let n_threads = arg_u64(args, "--threads", 12) as usize;
    let units = std::sync::Arc::new(units);
    let (profiles, ops) = (std::sync::Arc::new(profiles), std::sync::Arc::new(ops));
    let mut hs = Vec::new();
    for t in 0..n_threads {
        let (units, profiles, ops) = (units.clone(), profiles.clone(), ops.clone());
        hs.push(std::thread::spawn(move || {
            silence_panics();
            let mut problems: Vec<Value> = Vec::new();
            let (mut calls, mut longest, mut ok_units, mut err_units) = (0u64, 0usize, 0u64, 0u64);
            for u in units.iter().skip(t).step_by(n_threads) {
                let ub = u.len();
                let mut ns: Vec<usize> = vec![2, 3, 5];
                for b in [64usize, 256, 1024, 4096, 16384, 65536] {
                    let k = (b + ub - 1) / ub;
                    for n in [k.saturating_sub(1), k, k + 1] {
                        if n >= 2 && n * ub <= max_bytes {
                            ns.push(n);
                        }
                    }
                }
                ns.sort();
                ns.dedup();
                for p in profiles.iter() {
                    for op in ops.iter().filter(|o| *o != "compare") {
                        let r1 = call_profile(p, op, &[u.clone()]);
                        calls += 1;
                        if r1.get("ok").is_some() {
                            ok_units += 1;
                        } else {
                            err_units += 1;
                        }
                        for n in ns.iter() {
                            // the long runs are not needed for operations the profile does not define
                            if r1.get("err").map(|e| e == "ProfileRuleNotApplicable").unwrap_or(false) && *n > 3 {
                                continue;
                            }
                            let s = u.repeat(*n);
                            longest = longest.max(s.len());
                            let got = call_profile(p, op, &[s]);
                            calls += 1;
                            if got != expected(&r1, *n) && problems.len() < 10 {
                                problems.push(json!({"profile": p, "op": op, "unit": string_to_cps(u), "n": n, "bytes": n * ub,
                                                     "unit_result": short(&r1), "expected": "unit_result repeated n times (errors: the same error)", "actual": short(&got)}));
                            }
                        }
                        // padding (PadLaw): i copies of the head in front, j copies of the tail behind; not periodic
                        if r1.get("err").map(|e| e == "ProfileRuleNotApplicable").unwrap_or(false) {
                            continue;
                        }
                        let (h, t) = (u.chars().next().unwrap(), u.chars().last().unwrap());
                        let mut pads: Vec<(usize, usize)> = Vec::new();
                        for (x, ib) in PAD_BYTES.iter().enumerate() {
                            let i = ib / h.len_utf8();
                            let j = if x % 2 == 0 { 0 } else { 3 };
                            if i * h.len_utf8() + ub <= max_bytes {
                                pads.push((i, j));
                            }
                        }
                        pads.push((2, 5000 / t.len_utf8()));
                        pads.push((0, 4096 / t.len_utf8()));
                        pads.sort();
                        pads.dedup();
                        for (i, j) in pads {
                            let s: String = std::iter::repeat(h).take(i).chain(u.chars()).chain(std::iter::repeat(t).take(j)).collect();
                            longest = longest.max(s.len());
                            let got = call_profile(p, op, &[s]);
                            calls += 1;
                            let exp = match r1.get("ok").and_then(|o| o.as_array()) {
                                Some(cps) => {
                                    let mut v: Vec<Value> = Vec::with_capacity(cps.len() + i + j);
                                    v.extend(std::iter::repeat(json!(h as u32)).take(i));
                                    v.extend(cps.iter().cloned());
                                    v.extend(std::iter::repeat(json!(t as u32)).take(j));
                                    json!({ "ok": v })
                                }
                                None => {
                                    let mut e = r1.clone();
                                    if let Some(pos) = r1.get("pos").and_then(|x| x.as_u64()) {
                                        e["pos"] = json!(pos + i as u64);
                                    }
                                    e
                                }
                            };
                            if got != exp && problems.len() < 10 {
                                problems.push(json!({"profile": p, "op": op, "unit": string_to_cps(u), "pad_front": i, "pad_back": j,
                                                     "unit_result": short(&r1), "expected": "head^i . unit_result . tail^j (errors: the same error, position moved by i)",
                                                     "actual": short(&got)}));
                            }
                        }
                    }
                }
            }
            (problems, calls, longest, ok_units, err_units)
        }));
    }
    let mut problems: Vec<Value> = Vec::new();
    let (mut calls, mut longest, mut ok_units, mut err_units) = (0u64, 0usize, 0u64, 0u64);
    for h in hs {
        let (p, c, l, a, b) = h.join().unwrap_or_else(|_| tool_error("long thread died"));
        problems.extend(p);
        calls += c;
        longest = longest.max(l);
        ok_units += a;
        err_units += b;
    }
    problems.truncate(40);
    // compare on padded pairs: two units with the same head and tail (the second a respelling of the first: upper case,
    // decomposed, compatibility-composed, doubled middle) compare as their padded versions do
    let mut pairs: Vec<String> = Vec::new();
    if ops.iter().any(|o| o == "compare") {
        for u in units.iter() {
            let chars: Vec<char> = u.chars().collect();
            if chars.len() < 3 {
                continue;
            }
            let (h, t) = (chars[0], chars[chars.len() - 1]);
            let mid: String = chars[1..chars.len() - 1].iter().collect();
            let respell: [String; 5] = [mid.clone(), mid.to_uppercase(), mid.nfd().collect(), mid.nfkc().collect(), format!("{}{}", mid, mid)];
            for (vi, m2) in respell.iter().enumerate() {
                let v = format!("{}{}{}", h, m2, t);
                pairs.push(u.clone());
                pairs.push(v.clone());
                for p in profiles.iter() {
                    let r1 = call_profile(p, "compare", &[u.clone(), v.clone()]);
                    calls += 1;
                    for (x, ib) in PAD_BYTES.iter().enumerate().filter(|(x, _)| (x + vi) % 3 == 0) {
                        let i = ib / h.len_utf8();
                        let j = if x % 2 == 0 { 0 } else { 3 };
                        let pad = |s: &str| -> String { std::iter::repeat(h).take(i).chain(s.chars()).chain(std::iter::repeat(t).take(j)).collect() };
                        let got = call_profile(p, "compare", &[pad(u), pad(&v)]);
                        calls += 1;
                        let mut exp = r1.clone();
                        if let Some(pos) = r1.get("pos").and_then(|x| x.as_u64()) {
                            exp["pos"] = json!(pos + i as u64);
                        }
                        if got != exp && problems.len() < 40 {
                            problems.push(json!({"profile": p, "op": "compare", "a": string_to_cps(u), "b": string_to_cps(&v), "pad_front": i, "pad_back": j,
                                                 "expected": exp, "actual": got}));
                        }
                    }
                }
            }
        }
        std::fs::write(format!("{}/pairs.ndjson", dir), pairs.iter().map(|s| string_to_cps(s).to_string() + "\n").collect::<String>())
            .unwrap_or_else(|e| tool_error(&e.to_string()));
    }
    // context rules and the standard classes on padded labels (CtxPadLaw / AllowsPadLaw of MC_Context.tla): offsets
    // far beyond 255 / 65535 characters
    let mut ctx_calls = 0u64;
    if args.iter().any(|a| a == "--ctx") {
        let ctx_mids: [&str; 16] = [
            "\u{200d}", "\u{94d}\u{200d}", "\u{628}\u{200c}\u{628}", "\u{628}\u{64e}\u{200c}\u{64e}\u{627}", "\u{200c}", "\u{94d}\u{200c}", "l\u{b7}l", "l\u{b7}", "\u{b7}l",
            "\u{375}\u{3b1}", "\u{375}", "\u{5d0}\u{5f3}", "\u{5f4}", "\u{661}\u{6f1}", "\u{30fb}\u{30ab}", "\u{30fb}",
        ];
        let mut labels: Vec<String> = units.iter().cloned().collect();
        for (i, mid) in ctx_mids.iter().enumerate() {
            for (h, t) in [(0x61u32, 0x7au32), (CANDIDATES[(i * 3 + 2) % CANDIDATES.len()], CANDIDATES[(i * 5 + 7) % CANDIDATES.len()])] {
                labels.push(format!("{}{}{}", char::from_u32(h).unwrap(), mid, char::from_u32(t).unwrap()));
            }
        }
        for u in labels.iter() {
            let chars: Vec<char> = u.chars().collect();
            if chars.len() < 3 {
                continue;
            }
            let (h, t) = (chars[0], chars[chars.len() - 1]);
            for (x, i) in PAD_BYTES.iter().chain([65535usize, 65536, 70000].iter()).enumerate() {
                let j = if x % 2 == 0 { 0 } else { 3 };
                let padded: String = std::iter::repeat(h).take(*i).chain(chars.iter().cloned()).chain(std::iter::repeat(t).take(j)).collect();
                for k in 1..chars.len() - 1 {
                    // every rule at a character that has a rule registered, one (rotating) rule elsewhere
                    let contextual = !registry_obs(chars[k] as u32).is_empty();
                    for rule in CTX_RULES.iter().filter(|r| contextual || (k + x) % 8 == CTX_RULES.iter().position(|q| q == *r).unwrap()) {
                        let r1 = call_ctx(rule, u, k);
                        let got = call_ctx(rule, &padded, k + i);
                        ctx_calls += 2;
                        if got != r1 && problems.len() < 40 {
                            problems.push(json!({"ctx_rule": rule, "label": string_to_cps(u), "offset": k, "pad_front": i, "pad_back": j,
                                                 "expected": r1, "actual": got}));
                        }
                    }
                }
                for cls in ["Id", "Ff"] {
                    let r1 = call_allows(cls, u);
                    let mut exp = r1.clone();
                    if let Some(pos) = r1.get("pos").and_then(|p| p.as_u64()) {
                        exp["pos"] = json!(pos + *i as u64);
                    }
                    let got = call_allows(cls, &padded);
                    ctx_calls += 2;
                    if got != exp && problems.len() < 40 {
                        problems.push(json!({"allows": cls, "label": string_to_cps(u), "pad_front": i, "pad_back": j, "expected": exp, "actual": got}));
                    }
                }
            }
        }
        std::fs::write(format!("{}/units.ndjson", dir), labels.iter().map(|s| string_to_cps(s).to_string() + "\n").collect::<String>())
            .unwrap_or_else(|e| tool_error(&e.to_string()));
    }
    calls += ctx_calls;
    for p in problems.iter() {
        println!("{}", json!({ "problem": p }));
    }
    println!("{}", json!({"summary": {"units": units.len(), "calls": calls, "longest_input_bytes": longest, "unit_results_ok": ok_units,
                                      "unit_results_err": err_units, "problems": problems.len()}}));
}
