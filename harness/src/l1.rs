//! Layer L1: every code point through the public API, next to its oracle signature;
//! consecutive code points with identical (signature, observables) are merged into runs
//! and written as ndjson events for spec/trace/Trace_CodePoints.tla.
//!
//! The probes are fixed label templates with the code point substituted; this module does
//! not interpret their results.

use crate::api::*;
use crate::oracle::{Oracle, N};
use serde_json::{json, Value};
use std::io::Write;
use std::sync::Arc;

pub const COMPANIONS: [u32; 17] = [
    0x61, 0x41, 0x200c, 0x200d, 0x0628, 0x0375, 0x05f3, 0x30fb, 0x05d0, 0x0661, 0x20, 0xa0, 0xff21, 0xb7, 0x6c, 0x0660, 0x06f0,
];

fn rel(cp: u32, v: &[u32]) -> Value {
    Value::Array(v.iter().map(|x| if *x == cp { json!(-1) } else { json!(*x) }).collect())
}

fn rel_result(cp: u32, r: Value) -> Value {
    // {"ok":[..]} -> relative list ; errors / panics are kept as they are
    if let Some(a) = r.get("ok").and_then(|a| a.as_array()) {
        let v: Vec<u32> = a.iter().map(|x| x.as_u64().unwrap() as u32).collect();
        json!({ "ok": rel(cp, &v) })
    } else if r.get("panic").is_some() {
        // normalized: the message text (which may mention the code point) is not part of the observable
        json!({"panic": "P"})
    } else {
        r
    }
}

/// results with an error payload: the offending code point is encoded relative as well
fn rel_any(cp: u32, r: Value) -> Value {
    if r.get("ok").is_some() || r.get("panic").is_some() {
        return rel_result(cp, r);
    }
    let mut r = r;
    if r.get("cp").and_then(|x| x.as_u64()) == Some(cp as u64) {
        r["cp"] = json!(-1);
    }
    r
}

fn s3(parts: &[u32]) -> String {
    parts.iter().map(|c| char::from_u32(*c).unwrap()).collect()
}

fn ctx_obs(rule: &str, label: &[u32], off: usize) -> Value {
    let r = call_ctx(rule, &s3(label), off);
    if r.get("panic").is_some() {
        json!({"panic": "P"})
    } else {
        r
    }
}

fn dir_ok(label: &[u32]) -> Value {
    let r = call_profile("UCP", "directionality_rule", &[s3(label)]);
    if r.get("ok").is_some() {
        json!("T")
    } else if r.get("err").and_then(|e| e.as_str()) == Some("Invalid") {
        json!("F")
    } else if r.get("panic").is_some() {
        json!("PANIC")
    } else {
        json!(format!("E:{}", r))
    }
}

/// signature of a scalar code point (oracle side), relative encoded
pub fn sig_of(o: &Oracle, cp: u32) -> Value {
    let c = char::from_u32(cp).unwrap();
    let lower = Oracle::std_lower(c);
    json!({
        "exc": o.exc_of(cp),
        "idp": o.idp_of(cp),
        "cat": o.cats_of(cp),
        "vir": o.virama[cp as usize],
        "jt": o.jt_of(cp),
        "sc": o.script_of(cp),
        "zs": o.zs[cp as usize],
        "wm": o.wm_of(cp),
        "lower": rel(cp, &lower),
        "bidi": o.bidi_of(cp),
        "a16": o.assigned16[cp as usize],
    })
}

/// observables of a scalar code point (implementation side), relative encoded
pub fn obs_of(o: &Oracle, cp: u32) -> Value {
    let c = char::from_u32(cp).unwrap();
    let a = 0x61u32;
    let big_a = 0x41u32;
    let one = |p: &str, op: &str, label: &[u32]| rel_result(cp, call_profile(p, op, &[s3(label)]));
    let is_nsm = o.bidi_of(cp) == "NSM";
    json!({
        "id": class_value_g("Id", cp),
        "idc": guarded(|| json!(class_value_char("Id", c))).as_str().unwrap_or("PANIC").to_string(),
        "ff": class_value_g("Ff", cp),
        "ffc": guarded(|| json!(class_value_char("Ff", c))).as_str().unwrap_or("PANIC").to_string(),
        "reg": registry_obs(cp),
        "vir": ctx_obs("zwj", &[cp, 0x200d], 1),
        "greek": ctx_obs("keraia", &[0x0375, cp], 0),
        "hebrew": ctx_obs("hebrew", &[cp, 0x05f3], 1),
        "kana": ctx_obs("katakana", &[0x30fb, cp], 0),
        // literal comparisons of the rules: every code point as the neighbour / member they test
        "mdl": ctx_obs("middle_dot", &[cp, 0xb7, 0x6c], 1),
        "mdr": ctx_obs("middle_dot", &[0x6c, 0xb7, cp], 1),
        "aidx": ctx_obs("arabic_indic", &[0x0660, cp], 0),
        "eaidx": ctx_obs("ext_arabic_indic", &[0x06f0, cp], 0),
        // every rule on the one-character label [c] at offset 0: is the character the rule's own?
        "own": CTX_RULES.iter().map(|r| ctx_obs(r, &[cp], 0)).collect::<Vec<Value>>(),
        "ld": ctx_obs("zwnj", &[cp, 0x200c, 0x0628], 1),
        "rd": ctx_obs("zwnj", &[0x0628, 0x200c, cp], 1),
        "wm": [one("UCM", "width_mapping_rule", &[cp]), one("UCP", "width_mapping_rule", &[a, cp]), one("UCM", "width_mapping_rule", &[cp, a]),
               one("UCP", "width_mapping_rule", &[0xff21, cp]), one("UCM", "width_mapping_rule", &[cp, 0xff21])],
        "lc": [one("UCM", "case_mapping_rule", &[cp]), one("NICK", "case_mapping_rule", &[big_a, cp]), one("UCM", "case_mapping_rule", &[cp, big_a])],
        // every code point inside 8-byte blocks of lower-case ASCII (first block, second block): word-at-a-time scans
        "blk": [one("UCM", "case_mapping_rule", &[cp, a, a, a, a, a, a, a]), one("NICK", "case_mapping_rule", &[a, a, a, a, a, a, a, a, cp, a, a, a, a, a, a, a]),
                one("UCP", "width_mapping_rule", &[cp, a, a, a, a, a, a, a]), one("UCM", "width_mapping_rule", &[a, a, a, a, a, a, a, a, cp, a, a, a, a, a, a, a]),
                one("OPQ", "additional_mapping_rule", &[cp, a, a, a, a, a, a, a]), one("OPQ", "additional_mapping_rule", &[a, a, a, a, a, a, a, a, cp, a, a, a, a, a, a, a]),
                one("NICK", "additional_mapping_rule", &[a, cp, a, a, a, a, a, a]), one("NICK", "additional_mapping_rule", &[a, a, a, a, a, a, a, a, cp, a, a, a, a, a, a, a])],
        // the whole prepare pipeline and the string classes per code point: alone, between letters, inside 8-byte blocks
        "pp": [rel_any(cp, call_profile("UCM", "prepare", &[s3(&[cp])])),
               rel_any(cp, call_profile("UCP", "prepare", &[s3(&[cp, a, a, a, a, a, a, a])])),
               rel_any(cp, call_profile("OPQ", "prepare", &[s3(&[a, a, a, a, a, a, a, a, cp, a, a, a, a, a, a, a])])),
               rel_any(cp, call_profile("NICK", "prepare", &[s3(&[a, cp])]))],
        "al": [rel_any(cp, call_allows("Id", &s3(&[cp]))), rel_any(cp, call_allows("Ff", &s3(&[a, cp, a]))),
               rel_any(cp, call_allows("Id", &s3(&[a, cp, a]))), rel_any(cp, call_allows("Ff", &s3(&[cp])))],
        "osp": one("OPQ", "additional_mapping_rule", &[a, cp, a]),
        "nsp": one("NICK", "additional_mapping_rule", &[a, cp, a]),
        // the same character AFTER the first character that triggers the copying path
        "osp2": one("OPQ", "additional_mapping_rule", &[0xa0, cp, a]),
        "nsp2": one("NICK", "additional_mapping_rule", &[a, 0xa0, cp, a]),
        // ... and as the LAST character of a label whose spaces need action
        "osp3": one("OPQ", "additional_mapping_rule", &[0xa0, a, cp]),
        "osp4": one("OPQ", "additional_mapping_rule", &[cp, 0xa0]),
        "nsp3": one("NICK", "additional_mapping_rule", &[0x20, a, cp]),
        "bidi": [
            dir_ok(&[0x05d0, cp]),
            if is_nsm { json!("skip") } else { dir_ok(&[0x05d0, cp, 0x05d0]) },
            dir_ok(&[cp]),
            dir_ok(&[a, cp]),
            dir_ok(&[0x05d0, 0x0661, cp]),
        ],
    })
}

struct Run {
    lo: u32,
    hi: u32,
    key: String,
}

fn sweep_chunk(o: &Oracle, lo: u32, hi: u32) -> Vec<Run> {
    let mut runs: Vec<Run> = Vec::new();
    let mut cp = lo;
    while cp <= hi {
        if (0xD800..=0xDFFF).contains(&cp) {
            cp += 1;
            continue;
        }
        let key = format!("{{\"sig\":{},\"obs\":{}}}", sig_of(o, cp), obs_of(o, cp));
        match runs.last_mut() {
            Some(r) if r.key == key && r.hi + 1 == cp => r.hi = cp,
            _ => runs.push(Run { lo: cp, hi: cp, key }),
        }
        cp += 1;
    }
    runs
}

/// non-scalar values: only classification is observable. Returns distinct observed
/// (id, ff) pairs per contiguous range.
fn sweep_nonscalar(lo: u64, hi: u64, step: u64) -> Vec<(u64, u64, String)> {
    let mut out: Vec<(u64, u64, String)> = Vec::new();
    let mut v = lo;
    while v <= hi {
        let cp = v as u32;
        let key = format!("{{\"id\":\"{}\",\"ff\":\"{}\"}}", class_value_g("Id", cp), class_value_g("Ff", cp));
        match out.last_mut() {
            Some(r) if r.2 == key && (step > 1 || r.1 + 1 == v) => r.1 = v,
            _ => out.push((v, v, key)),
        }
        v += step;
    }
    out
}

pub fn main(args: &[String]) {
    let db = crate::util::arg_value(args, "--oracle").unwrap_or_else(|| crate::util::tool_error("--oracle"));
    let out = crate::util::arg_value(args, "--out").unwrap_or_else(|| crate::util::tool_error("--out"));
    let full32 = args.iter().any(|a| a == "--full32");
    let seed = crate::util::arg_u64(args, "--seed", 1);
    let threads = crate::util::arg_u64(args, "--threads", 12) as u32;
    let o = Arc::new(Oracle::load(&db));
    silence_panics();

    // scalar code points, in parallel chunks
    let n = N as u32;
    let chunk = (n + threads - 1) / threads;
    let mut handles = Vec::new();
    for t in 0..threads {
        let o = o.clone();
        let lo = t * chunk;
        let hi = std::cmp::min(n - 1, lo + chunk - 1);
        handles.push(std::thread::spawn(move || {
            silence_panics();
            sweep_chunk(&o, lo, hi)
        }));
    }
    let mut runs: Vec<Run> = Vec::new();
    for h in handles {
        let part = h.join().unwrap_or_else(|_| crate::util::tool_error("l1 worker died"));
        for r in part {
            match runs.last_mut() {
                Some(last) if last.key == r.key && last.hi + 1 == r.lo => last.hi = r.hi,
                _ => runs.push(r),
            }
        }
    }

    let mut f = std::io::BufWriter::new(std::fs::File::create(&out).unwrap());
    // header: attributes of the companion characters of the probe templates
    let comp: Vec<Value> = COMPANIONS.iter().map(|c| o.attrs(*c)).collect();
    writeln!(f, "{}", json!({"ev": "hdr", "companions": comp})).unwrap();
    let mut n_events = 1usize;
    for r in runs.iter() {
        writeln!(f, "{{\"ev\":\"cp\",\"lo\":{},\"hi\":{},{}", r.lo, r.hi, &r.key[1..]).unwrap();
        n_events += 1;
    }

    // non-scalar values: surrogates, then above U+10FFFF.  TLC integers are 32-bit signed:
    // values are carried as (v - 2^31) when v >= 2^31 ("hi32": true)
    let mut ns: Vec<(u64, u64, String, bool)> = Vec::new();
    for (lo, hi, k) in sweep_nonscalar(0xD800, 0xDFFF, 1) {
        ns.push((lo, hi, k, true));
    }
    if full32 {
        let lo0 = 0x110000u64;
        let hi0 = 0xFFFF_FFFFu64;
        let t = threads as u64;
        let chunk = (hi0 - lo0 + t) / t;
        let mut hs = Vec::new();
        for i in 0..t {
            let lo = lo0 + i * chunk;
            let hi = std::cmp::min(hi0, lo + chunk - 1);
            hs.push(std::thread::spawn(move || sweep_nonscalar(lo, hi, 1)));
        }
        for h in hs {
            for (lo, hi, k) in h.join().unwrap() {
                match ns.last_mut() {
                    Some(last) if last.2 == k && last.1 + 1 == lo && last.0 >= 0x110000 => last.1 = hi,
                    _ => ns.push((lo, hi, k, true)),
                }
            }
        }
    } else {
        // boundaries, powers of two and neighbours, plus seeded random samples
        let mut pts: Vec<u64> = vec![0x110000, 0x110001, 0x10FFFF + 0x10000, 0x1FFFFF, 0x200000, 0x7FFF_FFFF, 0x8000_0000, 0x8000_0001, 0xFFFF_FFFE, 0xFFFF_FFFF];
        for b in 21..32 {
            pts.push(1u64 << b);
            pts.push((1u64 << b) - 1);
            pts.push((1u64 << b) + 1);
        }
        let mut rng = crate::util::Rng::new(seed);
        for _ in 0..200_000 {
            pts.push(0x110000 + rng.below(0x1_0000_0000 - 0x110000));
        }
        pts.sort();
        pts.dedup();
        for p in pts {
            if p > 0xFFFF_FFFF {
                continue;
            }
            for (lo, hi, k) in sweep_nonscalar(p, p, 1) {
                match ns.last_mut() {
                    Some(last) if last.2 == k && !last.3 && last.0 >= 0x110000 => last.1 = hi,
                    _ => ns.push((lo, hi, k, false)),
                }
            }
        }
    }
    for (lo, hi, k, contiguous) in ns.iter() {
        let enc = |v: u64| -> (i64, bool) {
            if v >= 0x8000_0000 {
                ((v as i64) - 0x8000_0000i64, true)
            } else {
                (v as i64, false)
            }
        };
        // an event never straddles 2^31
        let mut parts: Vec<(u64, u64)> = Vec::new();
        if *lo < 0x8000_0000 && *hi >= 0x8000_0000 {
            parts.push((*lo, 0x7FFF_FFFF));
            parts.push((0x8000_0000, *hi));
        } else {
            parts.push((*lo, *hi));
        }
        for (a, b) in parts {
            let (ea, ha) = enc(a);
            let (eb, _) = enc(b);
            writeln!(
                f,
                "{{\"ev\":\"ns\",\"lo\":{},\"hi\":{},\"hi32\":{},\"contiguous\":{},\"obs\":{}}}",
                ea, eb, ha, contiguous, k
            )
            .unwrap();
            n_events += 1;
        }
    }
    f.flush().unwrap();
    println!("{}", json!({"events": n_events, "scalar_runs": runs.len(), "nonscalar_events": ns.len(), "full32": full32}));
}
