--------------------------------- MODULE Csv ---------------------------------
(***************************************************************************)
(* The IANA PRECIS registry CSV parser (precis-tools/src/csv_parser.rs).   *)
(* A file is a sequence of physical lines; a line is a sequence of TOKENS  *)
(* (atomic pieces of text) plus its terminator.  Tokens:                   *)
(*   ","  "-"  " or "  " "   separators                                    *)
(*   hex tokens             (HexVal gives the value of the valid ones)     *)
(*   property names         (PropNames), and unknown names                 *)
(*   description words      (anything else)                                *)
(* ParseRow is PrecisDerivedProperty::from_str on the concatenated text    *)
(* (read_line keeps the terminator, so it ends up in the description);     *)
(* NextItem is the line iterator (header skip, line counter, errors        *)
(* numbered by physical line).                                             *)
(***************************************************************************)
EXTENDS Base

PropNames == {"PVALID", "FREE_PVAL", "CONTEXTJ", "CONTEXTO", "DISALLOWED", "ID_DIS", "UNASSIGNED"}

\* H is a function: valid hexadecimal code point tokens -> value (<= 0x10FFFF); every operator takes it
\* explicitly so that the same definitions serve the model-checking catalogue and recorded rows
IsHex(H, tok) == tok \in DOMAIN H

PErr == [perr |-> TRUE]

\* index of the k-th "," token, 0 if none
RECURSIVE CommaFrom(_, _)
CommaFrom(toks, i) == IF i > Len(toks) THEN 0 ELSE IF toks[i] = "," THEN i ELSE CommaFrom(toks, i + 1)

\* first column: a code point or an inclusive range
ParseCps(H, f) ==
  IF Len(f) = 1 /\ IsHex(H, f[1]) THEN [k |-> "S", c |-> H[f[1]]]
  ELSE IF Len(f) = 3 /\ f[2] = "-" /\ IsHex(H, f[1]) /\ IsHex(H, f[3]) THEN [k |-> "R", s |-> H[f[1]], e |-> H[f[3]]]
  ELSE PErr

\* second column: one property name, or two joined by " or "
ParseProps(f) ==
  IF \E i \in 1..Len(f) : f[i] = " or "
  THEN (IF Len(f) = 3 /\ f[2] = " or " /\ f[1] \in PropNames /\ f[3] \in PropNames THEN [ps |-> <<f[1], f[3]>>] ELSE PErr)
  ELSE IF Len(f) = 1 /\ f[1] \in PropNames THEN [ps |-> <<f[1]>>]
  ELSE PErr

\* a row: split at the first two commas (splitn(3, ','))
ParseRow(H, toks, term) ==
  LET c1 == CommaFrom(toks, 1) IN
  IF c1 = 0 THEN PErr
  ELSE LET c2 == CommaFrom(toks, c1 + 1) IN
       IF c2 = 0 THEN PErr
       ELSE LET cps == ParseCps(H, SubSeq(toks, 1, c1 - 1))
                ps  == ParseProps(SubSeq(toks, c1 + 1, c2 - 1)) IN
            IF cps = PErr \/ ps = PErr THEN PErr
            ELSE [cps |-> cps, props |-> ps.ps, desc |-> SubSeq(toks, c2 + 1, Len(toks)), term |-> term]

\* ---- the iterator (CsvLineParser::next) as a machine -----------------------------------
\* registers: lineNumber (physical lines consumed); one NextItem call consumes lines until it
\* can return: the first line is skipped, end of file gives "none"
\* a physical line that is not valid UTF-8 (token "<BAD-UTF8>"): read_line fails AFTER consuming the line and after
\* the line counter was advanced; the iterator yields an I/O error (without line number) and goes on with the next
\* line.  This happens before the header test, so an undecodable header is reported, not skipped.
BadUtf8(line) == \E i \in 1..Len(line.toks) : line.toks[i] = "<BAD-UTF8>"

RECURSIVE NextItem(_, _, _)
NextItem(H, file, ln) ==     \* ln = line_number before the call
  LET n == ln + 1 IN
  IF n > Len(file) THEN [item |-> [none |-> TRUE], ln |-> n]
  ELSE IF BadUtf8(file[n]) THEN [item |-> [ioerr |-> TRUE], ln |-> n]
  ELSE IF n = 1 THEN NextItem(H, file, n)                       \* header: skipped, whatever it contains
  ELSE LET r == ParseRow(H, file[n].toks, file[n].term) IN
       [item |-> IF r = PErr THEN [err |-> n] ELSE [ok |-> r], ln |-> n]

RECURSIVE ItemsFrom(_, _, _)
ItemsFrom(H, file, ln) ==
  LET x == NextItem(H, file, ln) IN
  IF x.item = [none |-> TRUE] THEN <<>> ELSE <<x.item>> \o ItemsFrom(H, file, x.ln)
Items(H, file) == ItemsFrom(H, file, 0)
=============================================================================
