------------------------------ MODULE Version ------------------------------
(***************************************************************************)
(* The UNICODE_VERSION generator of precis-tools                           *)
(* (generators/unicode_version.rs): the version text handed over by the    *)
(* build script is searched (NOT anchored) with the regular expression     *)
(*        ([0-9]+).([0-9]+).([0-9]+)                                       *)
(* whose two separators are unescaped dots, i.e. ANY character except a    *)
(* line feed - a digit included.  The regex crate's semantics is leftmost- *)
(* first: the smallest start, and from there the first success of a        *)
(* backtracking search that tries longer repetitions first.  For this      *)
(* pattern that is the lexicographically greatest (l1, l2, l3) among the   *)
(* matches at the smallest start.  Each group is then read as a decimal    *)
(* number; the emitted line is                                             *)
(*   pub const UNICODE_VERSION: (u8, u8, u8) = (major, minor, patch);      *)
(* A text without a match is an error and nothing is emitted.              *)
(* Beyond the 18 listed properties: a deliberate transcription of what the *)
(* code does (the permissive dots are the code's, named here, not ideal).  *)
(***************************************************************************)
EXTENDS Naturals, Sequences, FiniteSets

Digits == <<"0", "1", "2", "3", "4", "5", "6", "7", "8", "9">>
IsDigit(c) == \E i \in 1..10 : Digits[i] = c
DigitVal(c) == (CHOOSE i \in 1..10 : Digits[i] = c) - 1
IsAnyButLf(c) == c # "\n"

AllDigits(s, a, n) == \A j \in a..(a + n - 1) : IsDigit(s[j])

\* a match: start i, group lengths l1 l2 l3 (each >= 1), one separator after group 1 and after group 2
IsMatch(s, i, l1, l2, l3) ==
  /\ i >= 1 /\ l1 >= 1 /\ l2 >= 1 /\ l3 >= 1
  /\ i + l1 + 1 + l2 + 1 + l3 - 1 <= Len(s)
  /\ AllDigits(s, i, l1) /\ IsAnyButLf(s[i + l1])
  /\ AllDigits(s, i + l1 + 1, l2) /\ IsAnyButLf(s[i + l1 + 1 + l2])
  /\ AllDigits(s, i + l1 + l2 + 2, l3)

Matches(s) == {m \in (1..Len(s)) \X (1..Len(s)) \X (1..Len(s)) \X (1..Len(s)) : IsMatch(s, m[1], m[2], m[3], m[4])}

\* leftmost-first preference
Better(a, b) ==  \* a is preferred to (or equal to) b
  \/ a[1] < b[1]
  \/ (a[1] = b[1] /\ a[2] > b[2])
  \/ (a[1] = b[1] /\ a[2] = b[2] /\ a[3] > b[3])
  \/ (a[1] = b[1] /\ a[2] = b[2] /\ a[3] = b[3] /\ a[4] >= b[4])
TheMatch(s) == CHOOSE a \in Matches(s) : \A b \in Matches(s) : Better(a, b)

RECURSIVE Decimal(_, _, _)
Decimal(s, a, n) == IF n = 0 THEN 0 ELSE Decimal(s, a, n - 1) * 10 + DigitVal(s[a + n - 1])

\* result of get_version: an error, or the three numbers
GetVersion(s) ==
  IF Matches(s) = {} THEN [err |-> "no version"]
  ELSE LET m == TheMatch(s) IN
       [major |-> Decimal(s, m[1], m[2]),
        minor |-> Decimal(s, m[1] + m[2] + 1, m[3]),
        patch |-> Decimal(s, m[1] + m[2] + m[3] + 2, m[4])]

\* ---- statements checked by TLC on every text of the model alphabet ------------------------
\* a text of the documented shape "a.b.c" (digits and two literal dots, nothing else) is read as (a, b, c)
RECURSIVE DotCount(_, _)
DotCount(s, n) == IF n = 0 THEN 0 ELSE DotCount(s, n - 1) + (IF s[n] = "." THEN 1 ELSE 0)
WellFormed(s) == /\ Len(s) >= 5 /\ \A j \in 1..Len(s) : (IsDigit(s[j]) \/ s[j] = ".")
                 /\ DotCount(s, Len(s)) = 2 /\ IsDigit(s[1]) /\ IsDigit(s[Len(s)])
                 /\ \A j \in 1..(Len(s) - 1) : ~(s[j] = "." /\ s[j + 1] = ".")
FirstDot(s) == CHOOSE j \in 1..Len(s) : s[j] = "." /\ \A k \in 1..(j - 1) : s[k] # "."
SecondDot(s) == CHOOSE j \in (FirstDot(s) + 1)..Len(s) : s[j] = "."
WellFormedReadsBack(s) ==
  WellFormed(s) => GetVersion(s) = [major |-> Decimal(s, 1, FirstDot(s) - 1),
                                    minor |-> Decimal(s, FirstDot(s) + 1, SecondDot(s) - FirstDot(s) - 1),
                                    patch |-> Decimal(s, SecondDot(s) + 1, Len(s) - SecondDot(s))]
\* a text with fewer than five characters, or fewer than three digits, has no version
TooShortIsError(s) == (Len(s) < 5 \/ Cardinality({j \in 1..Len(s) : IsDigit(s[j])}) < 3) => GetVersion(s) = [err |-> "no version"]
=============================================================================
