-------------------------- MODULE Trace_CodePoints --------------------------
(***************************************************************************)
(* Layer L1 (DESIGN.md 3.1): a trace recorded from the real library, one   *)
(* event per run of consecutive code points with identical oracle          *)
(* signature and identical observables, validated against the              *)
(* specification.  Every observable of an event must equal the             *)
(* specification's function of the signature; mismatching events are       *)
(* collected in `bad` (the rest of the trace is still checked).            *)
(***************************************************************************)
EXTENDS Profiles, DerivedProperty, Json, IOUtils

Rec == ndJsonDeserialize(IOEnv.TRACE)

VARIABLES l,     \* index of the next event
          nxt,   \* next scalar code point expected: the runs must tile the code space
          bad    \* mismatching events: [l, lo, fields]

vars == <<l, nxt, bad>>

Hdr == Rec[1]
ToSet(t) == {t[i] : i \in DOMAIN t}
Decode(lo, t) == [i \in DOMAIN t |-> IF t[i] = -1 THEN lo ELSE t[i]]

\* attribute function of the companion characters of the probe templates
CompU == LET T == ToSet(Hdr.companions) IN
         [c \in {t.cp : t \in T} |-> CHOOSE t \in T : t.cp = c]

AttrOf(e) == [cp |-> e.lo, idp |-> e.sig.idp, vir |-> e.sig.vir, jt |-> e.sig.jt, sc |-> e.sig.sc, zs |-> e.sig.zs,
              wm |-> e.sig.wm, lower |-> Decode(e.lo, e.sig.lower), bidi |-> e.sig.bidi]

World(e) == [mode |-> "facts", facts |-> <<>>, dev |-> {},
             u |-> [c \in (DOMAIN CompU) \cup {e.lo} |-> IF c = e.lo THEN AttrOf(e) ELSE CompU[c]]]

SigRec(e) == [exc |-> e.sig.exc, bc |-> "", cat |-> ToSet(e.sig.cat)]

\* result of a string-valued probe, decoded
ObsStr(e, r) == IF "ok" \in DOMAIN r THEN [ok |-> Decode(e.lo, r.ok)] ELSE r

\* any result, decoded: the offending code point of an error payload is relative as well
ObsRes(e, r) == IF "ok" \in DOMAIN r THEN [ok |-> Decode(e.lo, r.ok)]
                ELSE IF "cp" \in DOMAIN r THEN [r EXCEPT !.cp = IF @ = -1 THEN e.lo ELSE @]
                ELSE r

\* the order of api::CTX_RULES in the harness
RuleSeq == <<"zwnj", "zwj", "middle_dot", "keraia", "hebrew", "katakana", "arabic_indic", "ext_arabic_indic">>
DirExp(W, label) == IF DirectionalityOk(W, label) THEN "T" ELSE "F"

\* the set of observables of a scalar run that disagree with the specification
BadFieldsCp(e) ==
  LET W == World(e)  c == e.lo  o == e.obs  sg == SigRec(e)
      a == 97  A == 65  R == 1488  AN == 1633
      A6 == <<97, 97, 97, 97, 97, 97>>  A7 == <<97, 97, 97, 97, 97, 97, 97>>  A8 == <<97, 97, 97, 97, 97, 97, 97, 97>> IN
  {f \in {"id", "idc", "ff", "ffc", "reg", "regdom", "vir", "greek", "hebrew", "kana", "ld", "rd", "mdl", "mdr", "aidx", "eaidx", "own",
          "wm1", "wm2", "wm3", "wm4", "wm5", "osp2", "nsp2", "osp3", "nsp3", "osp4", "lc1", "lc2", "lc3", "lc4", "lc5", "wm6", "wm7", "osp5", "osp6", "nsp4", "nsp5", "pp1", "pp2", "pp3", "pp4", "al1", "al2", "al3", "al4", "sigidp", "osp", "nsp", "bidi1", "bidi2", "bidi3", "bidi4", "bidi5",
          "sigexc", "sigascii"} :
     CASE f = "id"  -> o.id  # Derived(sg, "Id")
       [] f = "idc" -> o.idc # Derived(sg, "Id")
       [] f = "ff"  -> o.ff  # Derived(sg, "Ff")
       [] f = "ffc" -> o.ffc # Derived(sg, "Ff")
       [] f = "reg" -> o.reg # (IF RuleOf(c) = "" THEN "" ELSE "applies")
       [] f = "regdom" -> (RuleOf(c) # "") # (Derived(sg, "Id") \in {"CONTEXTJ", "CONTEXTO"})
       [] f = "vir"    -> o.vir    # Rule(W, "zwj", <<c, ZWJ>>, 1)
       [] f = "greek"  -> o.greek  # Rule(W, "keraia", <<KERAIA, c>>, 0)
       [] f = "hebrew" -> o.hebrew # Rule(W, "hebrew", <<c, GERESH>>, 1)
       [] f = "kana"   -> o.kana   # Rule(W, "katakana", <<KATAKANA_MIDDLE_DOT, c>>, 0)
       [] f = "mdl"    -> o.mdl    # Rule(W, "middle_dot", <<c, MIDDLE_DOT, LATIN_L>>, 1)
       [] f = "mdr"    -> o.mdr    # Rule(W, "middle_dot", <<LATIN_L, MIDDLE_DOT, c>>, 1)
       [] f = "aidx"   -> o.aidx   # Rule(W, "arabic_indic", <<1632, c>>, 0)
       [] f = "eaidx"  -> o.eaidx  # Rule(W, "ext_arabic_indic", <<1776, c>>, 0)
       [] f = "own"    -> o.own    # [i \in 1..8 |-> Rule(W, RuleSeq[i], <<c>>, 0)]
       [] f = "ld"     -> o.ld     # Rule(W, "zwnj", <<c, ZWNJ, 1576>>, 1)
       [] f = "rd"     -> o.rd     # Rule(W, "zwnj", <<1576, ZWNJ, c>>, 1)
       [] f = "wm1" -> ObsStr(e, o.wm[1]) # Ok(WidthMap(W, <<c>>))
       [] f = "wm2" -> ObsStr(e, o.wm[2]) # Ok(WidthMap(W, <<a, c>>))
       [] f = "wm3" -> ObsStr(e, o.wm[3]) # Ok(WidthMap(W, <<c, a>>))
       [] f = "wm4" -> ObsStr(e, o.wm[4]) # Ok(WidthMap(W, <<65313, c>>))
       [] f = "osp2" -> ObsStr(e, o.osp2) # Ok(PwSpaces(W, <<160, c, a>>))
       [] f = "nsp2" -> ObsStr(e, o.nsp2) # Ok(NickSpaces(W, <<a, 160, c, a>>))
       [] f = "wm5" -> ObsStr(e, o.wm[5]) # Ok(WidthMap(W, <<c, 65313>>))
       [] f = "osp4" -> ObsStr(e, o.osp4) # Ok(PwSpaces(W, <<c, 160>>))
       [] f = "osp3" -> ObsStr(e, o.osp3) # Ok(PwSpaces(W, <<160, a, c>>))
       [] f = "nsp3" -> ObsStr(e, o.nsp3) # Ok(NickSpaces(W, <<32, a, c>>))
       [] f = "lc1" -> ObsStr(e, o.lc[1]) # Ok(CaseMap(W, <<c>>))
       [] f = "lc2" -> ObsStr(e, o.lc[2]) # Ok(CaseMap(W, <<A, c>>))
       [] f = "lc3" -> ObsStr(e, o.lc[3]) # Ok(CaseMap(W, <<c, A>>))
       \* inside 8-byte blocks of lower-case ASCII: first block, second block
       [] f = "lc4"  -> ObsStr(e, o.blk[1]) # Ok(CaseMap(W, <<c>> \o A7))
       [] f = "lc5"  -> ObsStr(e, o.blk[2]) # Ok(CaseMap(W, A8 \o <<c>> \o A7))
       [] f = "wm6"  -> ObsStr(e, o.blk[3]) # Ok(WidthMap(W, <<c>> \o A7))
       [] f = "wm7"  -> ObsStr(e, o.blk[4]) # Ok(WidthMap(W, A8 \o <<c>> \o A7))
       [] f = "osp5" -> ObsStr(e, o.blk[5]) # Ok(PwSpaces(W, <<c>> \o A7))
       [] f = "osp6" -> ObsStr(e, o.blk[6]) # Ok(PwSpaces(W, A8 \o <<c>> \o A7))
       [] f = "nsp4" -> ObsStr(e, o.blk[7]) # Ok(NickSpaces(W, <<a, c>> \o A6))
       [] f = "nsp5" -> ObsStr(e, o.blk[8]) # Ok(NickSpaces(W, A8 \o <<c>> \o A7))
       \* prepare (width mapping, non-empty, string class with context rules) and the classes themselves
       \* (a width-mapped character becomes a character whose attributes are not part of this event: skipped here, the
       \* width rule itself is wm1..wm7 and the composition is checked on the model alphabets)
       [] f = "pp1" -> e.sig.wm = -1 /\ ObsRes(e, o.pp[1]) # Prepare(W, "UCM", <<c>>)
       [] f = "pp2" -> e.sig.wm = -1 /\ ObsRes(e, o.pp[2]) # Prepare(W, "UCP", <<c>> \o A7)
       [] f = "pp3" -> ObsRes(e, o.pp[3]) # Prepare(W, "OPQ", A8 \o <<c>> \o A7)
       [] f = "pp4" -> ObsRes(e, o.pp[4]) # Prepare(W, "NICK", <<a, c>>)
       [] f = "al1" -> ObsRes(e, o.al[1]) # Allows(W, "Id", <<c>>)
       [] f = "al2" -> ObsRes(e, o.al[2]) # Allows(W, "Ff", <<a, c, a>>)
       [] f = "al3" -> ObsRes(e, o.al[3]) # Allows(W, "Id", <<a, c, a>>)
       [] f = "al4" -> ObsRes(e, o.al[4]) # Allows(W, "Ff", <<c>>)
       \* consistency of the oracle's own rendering of the decision list with this specification's
       [] f = "sigidp" -> PropOf("Id", e.sig.idp) # Derived(sg, "Id") \/ PropOf("Ff", e.sig.idp) # Derived(sg, "Ff")
       [] f = "osp" -> ObsStr(e, o.osp) # Ok(PwSpaces(W, <<a, c, a>>))
       [] f = "nsp" -> ObsStr(e, o.nsp) # Ok(NickSpaces(W, <<a, c, a>>))
       [] f = "bidi1" -> o.bidi[1] # DirExp(W, <<R, c>>)
       [] f = "bidi2" -> (o.bidi[2] # "skip" /\ o.bidi[2] # DirExp(W, <<R, c, R>>))
       [] f = "bidi3" -> o.bidi[3] # DirExp(W, <<c>>)
       [] f = "bidi4" -> o.bidi[4] # DirExp(W, <<a, c>>)
       [] f = "bidi5" -> o.bidi[5] # DirExp(W, <<R, AN, c>>)
       \* consistency of the oracle's transcription of RFC constants with this specification's
       [] f = "sigexc"   -> e.sig.exc # ExceptionOf(e.lo) \/ e.sig.exc # ExceptionOf(e.hi)
       [] f = "sigascii" -> ("ascii7" \in sg.cat) # (e.lo \in Ascii7) \/ ("ascii7" \in sg.cat) # (e.hi \in Ascii7)
  }

Tiles(e) == e.lo = nxt \/ (nxt = 55296 /\ e.lo = 57344)    \* the surrogates are not scalar values

BadFieldsNs(e) ==
  {f \in {"id", "ff"} :
     CASE f = "id" -> e.obs.id # Derived(NonScalarSig, "Id")
       [] f = "ff" -> e.obs.ff # Derived(NonScalarSig, "Ff")}

Init == l = 2 /\ nxt = 0 /\ bad = <<>>

Step ==
  /\ l <= Len(Rec)
  /\ LET e == Rec[l] IN
       \/ /\ e.ev = "cp"
          /\ LET B == BadFieldsCp(e) \cup (IF Tiles(e) /\ e.lo <= e.hi THEN {} ELSE {"tiling"}) IN
               bad' = IF B = {} THEN bad ELSE Append(bad, [l |-> l, lo |-> e.lo, hi |-> e.hi, fields |-> B])
          /\ nxt' = e.hi + 1
       \/ /\ e.ev = "ns"
          /\ LET B == BadFieldsNs(e) IN
               bad' = IF B = {} THEN bad ELSE Append(bad, [l |-> l, lo |-> e.lo, hi |-> e.hi, fields |-> B])
          /\ UNCHANGED nxt
  /\ l' = l + 1

Spec == Init /\ [][Step]_vars

\* every event was consumed, the scalar runs covered 0..10FFFF, and the verdict is printed
Accepted == TLCGet("stats").diameter = Len(Rec)

\* evaluated in the last state via an invariant: when the trace is consumed, report
Done == l = Len(Rec) + 1
Report == Done => /\ PrintT(<<"BAD", ToJson(bad)>>)
                  /\ PrintT(<<"TILED", nxt = 1114112>>)
=============================================================================
