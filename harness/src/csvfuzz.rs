//! C17 recorder: random registry rows (all code points and ranges, all 7 names and 49 ordered
//! pairs, random descriptions) and corruptions of them, rendered as text and read back through
//! PrecisDerivedProperty::from_str / CsvLineParser.  Records what the parser returned; TLC
//! (Trace_Csv.tla) decides whether that is what the row says.  Also re-reads the shipped
//! registry file and compares it with an independent parse.

use crate::replay_csv::{protocol_check, read_file, row_json_real, strip_term};
use crate::util::*;
use precis_tools::PrecisDerivedProperty;
use serde_json::{json, Value};
use std::io::Write;
use std::path::PathBuf;
use std::str::FromStr;

const NAMES: [&str; 7] = ["PVALID", "FREE_PVAL", "CONTEXTJ", "CONTEXTO", "DISALLOWED", "ID_DIS", "UNASSIGNED"];
const WORDS: [&str; 16] = ["LATIN", "SMALL LETTER", "a", "CJK UNIFIED IDEOGRAPH-4E00", "<control>", "é", "日本", "x-y", "..", "or", "PVALID", "\u{1f600}",
                           "\"", "\"QUOTED\"", "\"OPEN", "'"];

fn hex_tok(rng: &mut Rng, cp: u32) -> String {
    match rng.below(3) {
        0 => format!("{:04X}", cp),
        1 => format!("{:X}", cp),
        _ => format!("{:06X}", cp),
    }
}

fn rand_cp(rng: &mut Rng) -> u32 {
    match rng.below(6) {
        0 => rng.below(0x80) as u32,
        1 => 0x10FFFF - rng.below(4) as u32,
        2 => rng.below(0x10000) as u32,
        3 => 0xD7F0 + rng.below(0x20) as u32, // around the surrogates
        _ => rng.below(0x110000) as u32,
    }
}

/// returns (tokens, hex table)
fn gen_row(rng: &mut Rng) -> (Vec<String>, Vec<(String, u32)>, bool) {
    let mut toks: Vec<String> = Vec::new();
    let mut hex: Vec<(String, u32)> = Vec::new();
    let mut corrupted = false;
    let mut push_hex = |toks: &mut Vec<String>, hex: &mut Vec<(String, u32)>, rng: &mut Rng| {
        let mut cp = rand_cp(rng);
        if (0xD800..=0xDFFF).contains(&cp) {
            cp = 0xD7FF; // code point tokens naming surrogates are not asserted either way
        }
        let t = hex_tok(rng, cp);
        hex.push((t.clone(), cp));
        toks.push(t);
    };
    // column 1
    let c1 = rng.below(20);
    match c1 {
        0..=8 => push_hex(&mut toks, &mut hex, rng),
        9..=15 => {
            push_hex(&mut toks, &mut hex, rng);
            toks.push("-".into());
            push_hex(&mut toks, &mut hex, rng);
            // one range in eight has exactly one element
            if rng.chance(1, 8) {
                let n = hex.len();
                let v = hex[n - 2].1;
                let t2 = hex_tok(rng, v);
                let l = toks.len();
                toks[l - 1] = t2.clone();
                hex[n - 1] = (t2, v);
            }
            // keep start <= end: a reversed range is not asserted either way
            let n = hex.len();
            if hex[n - 2].1 > hex[n - 1].1 {
                let l = toks.len();
                toks.swap(l - 3, l - 1);
                hex.swap(n - 2, n - 1);
            }
        }
        16 => {
            corrupted = true;
            toks.push(rng.pick(&["110000", "FFFFFFFF", "100000000", "00G1", "XYZ", "12 34", "0x41", "004\u{c9}", "\u{20ac}", "0041-005\u{ff21}", "\u{1f600}41"]).to_string());
        }
        17 => {
            corrupted = true; // empty column
        }
        18 => {
            corrupted = true;
            push_hex(&mut toks, &mut hex, rng);
            toks.push("-".into());
        }
        _ => {
            corrupted = true;
            toks.push("-".into());
            push_hex(&mut toks, &mut hex, rng);
        }
    }
    // field-count corruptions
    let shape = rng.below(30);
    if shape == 0 {
        return (toks, hex, true); // only one field
    }
    toks.push(",".into());
    // column 2
    match rng.below(20) {
        0..=8 => toks.push(rng.pick(&NAMES).to_string()),
        9..=15 => {
            toks.push(rng.pick(&NAMES).to_string());
            toks.push(" or ".into());
            toks.push(rng.pick(&NAMES).to_string());
        }
        16 => {
            corrupted = true;
            toks.push(rng.pick(&["BOGUS", "pvalid", "PVALID_", "ID_DIS or", "VALID", "PVALI\u{110}", "\u{20ac}", "ID_DIS or FREE_PVA\u{141}"]).to_string());
        }
        17 => {
            corrupted = true; // empty
        }
        18 => {
            corrupted = true;
            toks.push(rng.pick(&NAMES).to_string());
            toks.push(" or ".into());
            toks.push(rng.pick(&NAMES).to_string());
            toks.push(" or ".into());
            toks.push(rng.pick(&NAMES).to_string());
        }
        _ => {
            corrupted = true;
            if rng.chance(1, 2) {
                toks.push(" ".into());
                toks.push(rng.pick(&NAMES).to_string());
            } else {
                toks.push(rng.pick(&NAMES).to_string());
                toks.push(" or ".into());
                toks.push("BOGUS".into());
            }
        }
    }
    if shape == 1 {
        return (toks, hex, true); // two fields only
    }
    toks.push(",".into());
    // description: words and commas
    let n = rng.below(5);
    for i in 0..n {
        if i > 0 && rng.chance(1, 2) {
            toks.push(",".into());
        } else if i > 0 {
            toks.push(" ".into());
        }
        toks.push(rng.pick(&WORDS).to_string());
    }
    // one description in six ends in white space (which belongs to the description)
    if rng.chance(1, 6) {
        toks.push(rng.pick(&[" ", "\t", "\u{a0}", "  ", "\u{3000}"]).to_string());
    }
    (toks, hex, corrupted)
}

fn tokens_after_second_comma(toks: &[String]) -> Option<String> {
    let mut commas = 0;
    for (i, t) in toks.iter().enumerate() {
        if t == "," {
            commas += 1;
            if commas == 2 {
                return Some(toks[i + 1..].concat());
            }
        }
    }
    None
}

pub fn main(args: &[String]) {
    crate::api::silence_panics();
    let seed = arg_u64(args, "--seed", 1);
    let rows = arg_u64(args, "--rows", 20000);
    let out = arg_value(args, "--out").unwrap_or_else(|| tool_error("--out"));
    let mut rng = Rng::new(seed);
    let mut f = std::io::BufWriter::new(std::fs::File::create(&out).unwrap());
    let mut corrupted_n = 0u64;
    for _ in 0..rows {
        let (toks, hex, corrupted) = gen_row(&mut rng);
        if corrupted {
            corrupted_n += 1;
        }
        let term = *rng.pick(&["\n", "\r\n", ""]);
        let line = toks.concat() + term;
        let r = std::panic::catch_unwind(|| PrecisDerivedProperty::from_str(&line));
        let res = match r {
            Err(_) => json!({"st": "panic"}),
            Ok(Err(_)) => json!({"st": "err"}),
            Ok(Ok(p)) => {
                let j = row_json_real(&p);
                // "the same description text (up to the line terminator)"
                let descok = tokens_after_second_comma(&toks).map(|d| strip_term(&(d + term)) == strip_term(&p.description)).unwrap_or(false);
                json!({"st": "ok", "cps": j["cps"], "props": j["props"], "descok": descok})
            }
        };
        writeln!(
            f,
            "{}",
            json!({"toks": toks, "term": term, "hex": hex.iter().map(|(t, v)| json!({"tok": t, "val": v})).collect::<Vec<_>>(), "res": res})
        )
        .unwrap();
    }
    f.flush().unwrap();
    // the shipped registry, re-read through the line parser and compared with an independent parse
    let mut registry = json!({"checked": false});
    if let Some(path) = arg_value(args, "--registry") {
        let text = std::fs::read_to_string(&path).unwrap_or_else(|e| tool_error(&format!("{}: {}", path, e)));
        let actual = read_file(&PathBuf::from(&path));
        let mut diffs = 0u64;
        let mut n = 0u64;
        let mut first: Value = Value::Null;
        let items = actual.as_array().cloned().unwrap_or_default();
        for (i, line) in text.split_inclusive('\n').skip(1).enumerate() {
            n += 1;
            // independent parse: split at the first two commas
            let mut it = line.splitn(3, ',');
            let (c, p, d) = (it.next().unwrap_or(""), it.next().unwrap_or(""), it.next().unwrap_or(""));
            let cps = match c.split_once('-') {
                Some((a, b)) => json!({"k": "R", "s": u32::from_str_radix(a, 16).unwrap_or(0), "e": u32::from_str_radix(b, 16).unwrap_or(0)}),
                None => json!({"k": "S", "c": u32::from_str_radix(c, 16).unwrap_or(0)}),
            };
            let props: Vec<&str> = p.split(" or ").collect();
            let exp = json!({"ok": {"cps": cps, "props": props, "desc": strip_term(d)}});
            if items.get(i) != Some(&exp) {
                diffs += 1;
                if first.is_null() {
                    first = json!({"line": i + 2, "expected": exp, "actual": items.get(i)});
                }
            }
        }
        if items.len() as u64 != n {
            diffs += 1;
        }
        registry = json!({"checked": true, "rows": n, "items": items.len(), "diffs": diffs, "first": first});
    }
    // synthetic registry files read through the line parser: descriptions of boundary lengths (buffer sizes of a
    // line reader: 2^k and neighbours, in bytes and with multi-byte characters straddling them), LF and CRLF, with
    // malformed rows in between whose errors must carry the physical line number
    let mut synth = json!({"checked": false});
    if let Some(dir) = arg_value(args, "--scratch") {
        std::fs::create_dir_all(&dir).ok();
        let path = PathBuf::from(&dir).join("synthetic.csv");
        let mut lens: Vec<usize> = vec![0, 1, 2, 50, 161, 255, 256, 257, 511, 512, 513, 1023, 1024, 1025, 2047, 2048, 2049, 16383, 16384, 16385, 65535, 65536, 65537, 200_000];
        lens.extend(4060..4110);
        lens.extend(8160..8200);
        lens.extend([32767, 32768, 32769]);
        let fillers: [&str; 8] = ["x", "\u{e9}", "\u{65e5}", "\u{1f600}", "a, b", "\"q\" m", "\"open, ", "e\""];
        let (mut files, mut nrows, mut diffs) = (0u64, 0u64, 0u64);
        let mut first: Value = Value::Null;
        for term in ["\n", "\r\n"] {
            for fi in 0..fillers.len() {
                let mut text = String::from("Codepoint,Property,Description") + term;
                let mut exp: Vec<Value> = Vec::new();
                for (i, l) in lens.iter().enumerate() {
                    let lineno = exp.len() + 2;
                    if i % 9 == 4 {
                        // malformed: unknown property name / missing field
                        text.push_str(if i % 2 == 0 { "0041,BOGUS,x" } else { "0041,PVALID" });
                        text.push_str(term);
                        exp.push(json!({ "err": lineno }));
                        continue;
                    }
                    let filler = fillers[(fi + i) % fillers.len()];
                    let mut desc = String::new();
                    while desc.len() < *l {
                        desc.push_str(filler);
                    }
                    let desc = desc.trim_end().to_string();
                    let cp = rand_cp(&mut rng).min(0x10FFF0);
                    let cp = if (0xD800..=0xDFFF).contains(&cp) { 0xD7FF } else { cp };
                    let (c1, cps) = if i % 3 == 0 {
                        (format!("{:04X}-{:04X}", cp, cp + 7), json!({"k": "R", "s": cp, "e": cp + 7}))
                    } else {
                        (format!("{:04X}", cp), json!({"k": "S", "c": cp}))
                    };
                    let cps = if cps["k"] == "R" && (0xD800..=0xDFFF).contains(&(cp + 7)) { json!({"k": "S", "c": cp}) } else { cps };
                    let c1 = if cps["k"] == "S" { format!("{:04X}", cp) } else { c1 };
                    let (p1, p2) = (NAMES[i % 7], NAMES[(i / 7) % 7]);
                    let (c2, props) = if i % 4 == 1 { (format!("{} or {}", p1, p2), json!([p1, p2])) } else { (p1.to_string(), json!([p1])) };
                    text.push_str(&format!("{},{},{}{}", c1, c2, desc, term));
                    exp.push(json!({"ok": {"cps": cps, "props": props, "desc": strip_term(&desc)}}));
                }
                std::fs::write(&path, text.as_bytes()).unwrap_or_else(|e| tool_error(&e.to_string()));
                let actual = read_file(&path);
                files += 1;
                nrows += exp.len() as u64;
                let items = actual.as_array().cloned().unwrap_or_default();
                let mut d = 0u64;
                if fi < 2 && items.len() == exp.len() {
                    if let Some(pc) = protocol_check(&path, &items) {
                        d += 1;
                        if first.is_null() {
                            first = json!({"file": files + 1, "iterator_protocol": pc});
                        }
                    }
                }
                for (i, e) in exp.iter().enumerate() {
                    if items.get(i) != Some(e) {
                        d += 1;
                        if first.is_null() {
                            let short = |v: Option<&Value>| v.map(|v| { let s = v.to_string(); if s.len() > 300 { format!("{}... ({} bytes)", s.chars().take(300).collect::<String>(), s.len()) } else { s } });
                            first = json!({"file": files, "terminator": term, "line": i + 2, "description_bytes": e["ok"]["desc"].as_str().map(|x| x.len()),
                                           "expected": short(Some(e)), "actual": short(items.get(i)), "whole": if items.is_empty() { actual.clone() } else { Value::Null }});
                        }
                    }
                }
                if items.len() != exp.len() {
                    d += 1;
                    if first.is_null() {
                        first = json!({"file": files, "terminator": term, "expected_items": exp.len(), "actual_items": items.len()});
                    }
                }
                diffs += d;
            }
        }
        // malformed rows whose damaged field is long and not ASCII (the error path echoes / truncates the field): every
        // length 1..120 of four fillers behind a well-formed beginning and alone, in the code point and in the property column
        for filler in ["x", "\u{e9}", "\u{65e5}", "\u{1f600}"] {
            let mut text = String::from("Codepoint,Property,Description\n");
            let mut exp: Vec<Value> = Vec::new();
            for k in 1..=120usize {
                let junk = filler.repeat(k);
                for row in [format!("00E0-00FF{},PVALID,SOME DESCRIPTION", junk), format!("0020,ID_DIS or FREE_PVAL{},SPACE", junk),
                            format!("{}-{},PVALID,x", junk, junk), format!("0041,{} or {},x", junk, junk)] {
                    text.push_str(&row);
                    text.push('\n');
                    exp.push(json!({ "err": exp.len() + 2 }));
                    // the single-row entry point as well
                    let r = std::panic::catch_unwind(|| PrecisDerivedProperty::from_str(&row));
                    if !matches!(r, Ok(Err(_))) {
                        diffs += 1;
                        if first.is_null() {
                            first = json!({"from_str": row.chars().take(120).collect::<String>(), "junk_chars": k, "actual": if r.is_err() { "panic" } else { "accepted" }});
                        }
                    }
                }
            }
            std::fs::write(&path, text.as_bytes()).unwrap_or_else(|e| tool_error(&e.to_string()));
            let actual = read_file(&path);
            files += 1;
            nrows += exp.len() as u64;
            let items = actual.as_array().cloned().unwrap_or_default();
            for (i, e) in exp.iter().enumerate() {
                if items.get(i) != Some(e) {
                    diffs += 1;
                    if first.is_null() {
                        first = json!({"file": files, "line": i + 2, "expected": e, "actual": items.get(i), "whole": if items.is_empty() { actual.clone() } else { Value::Null }});
                    }
                }
            }
            if items.len() != exp.len() {
                diffs += 1;
                if first.is_null() {
                    first = json!({"file": files, "expected_items": exp.len(), "actual_items": items.len(), "whole": if items.is_empty() { actual.clone() } else { Value::Null }});
                }
            }
        }
        std::fs::remove_file(&path).ok();
        synth = json!({"checked": true, "files": files, "rows": nrows, "diffs": diffs, "first": first});
    }
    println!("{}", json!({"summary": {"rows": rows, "corrupted": corrupted_n, "registry": registry, "synthetic": synth}}));
}
