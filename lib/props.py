"""One function per property: what is model-checked, what is replayed, what is validated."""
import json
import os

from common import Check, log, tool_error
from l1 import apply_l1
from mc import replay, run_mc, spec_violation

TIERS = ("quick", "thorough")


# --------------------------------------------------------------------------------- C18
def C18(chk):
    w = 7 if chk.tier == "quick" else 8
    cfg = "SPECIFICATION Spec\nCONSTANT W = %d\nINVARIANT PairOk\nINVARIANT TableOk\nINVARIANT Emit\nCHECK_DEADLOCK FALSE\n" % w
    mc = run_mc("MC_Codepoints", cfg, "c18", workers=4)
    if mc.res.violated:
        return spec_violation(chk, mc, "MC_Codepoints")
    replay(chk, mc, "MC_Codepoints(W=%d)" % w)
    chk.cov["exhaustive"] = True
    chk.cov["rule"] = ("every entry (single, range start<=end) x every code point of a window of %d values: the 12 hand-written "
                       "operators; every sorted table over the window x every code point: binary search; each replayed against "
                       "precis_core::Codepoints at 5 bases of the u32 range (0, 0x7a, 0x10FFFA, 2^31-4, u32::MAX-6). "
                       "non-trivial = distinct (entry, cp) pairs plus tables with more than one entry" % w)
    chk.assumptions += ["an order-only definition is decided by a window containing every relative position of cp to start<=end",
                        "TLC, JVM, rustc"]


# --------------------------------------------------------------------------------- C13
def C13(chk):
    n = 5 if chk.tier == "quick" else 6
    cfg = ("SPECIFICATION Spec\nCONSTANTS\n  NStates = %d\n  D <- MCD\n  E1 = E1\n  E2 = E2\n  MaxApps = 4\n  Starts = {1}\n"
           "INVARIANT Contract\nINVARIANT Emit\nPROPERTY Terminates\nVIEW View\nCHECK_DEADLOCK FALSE\n" % n)
    mc = run_mc("MC_Stabilize", cfg, "c13", workers=6, timeout=3000, heap="8g")
    if mc.res.violated:
        return spec_violation(chk, mc, "MC_Stabilize")
    replay(chk, mc, "MC_Stabilize(|D|=%d)" % n)
    chk.cov["exhaustive"] = True
    chk.cov["rule"] = ("every rule function f: D -> D u {E1,E2} on |D|=%d states, start fixed by symmetry; the loop machine is "
                       "checked against the contract (fixed point, orbit membership, <=4 calls, f's own error, Invalid otherwise) and "
                       "liveness; every behaviour is replayed into precis_core::profile::stabilize with a recording closure, for two "
                       "assignments of multi-byte strings to states and two Cow policies (owned / borrowed sub-slice); "
                       "non-trivial = behaviours with more than one call or an error" % n)
    chk.assumptions += ["small scope: the loop inspects an orbit prefix of at most 5 elements, so |D| >= 5 exhibits every behaviour"]


# --------------------------------------------------------------------------------- L1-only parts
def C14(chk):
    apply_l1(chk, ["id", "ff", "ns"], full32=(chk.tier == "thorough"), nontrivial_key="sigs")
    chk.cov["rule"] = ("all scalar values 0..10FFFF through both classes and both entry points, surrogates, and values above "
                       "U+10FFFF (thorough: all 2^32; quick: boundaries, powers of two, 200k seeded samples); one trace event per run "
                       "of equal (oracle signature, observables); TLC evaluates the RFC 8264 decision list on the signature; "
                       "non-trivial = distinct category signatures")


PROPS = {"C13": C13, "C14": C14, "C18": C18}
