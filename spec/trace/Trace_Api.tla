------------------------------ MODULE Trace_Api ------------------------------
(***************************************************************************)
(* Layer L3 (DESIGN.md 3.3): a trace of public API calls recorded from the *)
(* real library on real Unicode strings, validated against the             *)
(* specification.  Every event carries                                     *)
(*   tbl    oracle attributes of every code point that can occur in an     *)
(*          intermediate string (from the pinned UCD copies, not /repo)    *)
(*   facts  NFC / NFKC of every string in the closure of the arguments     *)
(*          under the primitive maps (computed by the normalization crate  *)
(*          called directly)                                               *)
(* The event is explained iff its result equals the specification's Sem.   *)
(* A result that is only explained with a NAMED DEVIATION switched on is   *)
(* recorded as such (known finding); anything else is a mismatch.          *)
(* Session bookkeeping (C16): per thread the sequence numbers increase,    *)
(* and equal calls give equal results whatever the thread, the API form,   *)
(* the argument kind and the history (memo).                               *)
(***************************************************************************)
EXTENDS Profiles, Json, IOUtils

Rec == ndJsonDeserialize(IOEnv.TRACE)

VARIABLES l, bad, memo, lastSeq, extra
vars == <<l, bad, memo, lastSeq, extra>>

ToSet(t) == {t[i] : i \in DOMAIN t}

WorldOf(e, dev) ==
  LET T == ToSet(e.tbl)  F == ToSet(e.facts) IN
  [mode |-> "facts", dev |-> dev,
   u |-> [c \in {t.cp : t \in T} |-> CHOOSE t \in T : t.cp = c],
   facts |-> [x \in {f.x : f \in F} |-> CHOOSE f \in F : f.x = x]]

Expected(e, dev) ==
  LET W == WorldOf(e, dev) IN
  CASE e.ev = "call"   -> Sem(W, e.profile, e.op, e.args)
    [] e.ev = "allows" -> Allows(W, e.cls, e.args[1])
    [] e.ev = "ctx"    -> Rule(W, e.rule, e.args[1], e.off)

Key(e) == CASE e.ev = "call"   -> <<e.profile, e.op, e.args>>
            [] e.ev = "allows" -> <<e.cls, "allows", e.args>>
            [] e.ev = "ctx"    -> <<e.rule, "ctx", e.args, e.off>>

\* "ok" | "known:<deviation>" | "mismatch" | "missingfact" | "memo" | "order"
Judge(e) ==
  LET x == Expected(e, {}) IN
  IF e.thread \in DOMAIN lastSeq /\ lastSeq[e.thread] >= e.seq THEN "order"
  ELSE IF Key(e) \in DOMAIN memo /\ memo[Key(e)] # e.res THEN "memo"
  ELSE IF x = e.res THEN "ok"
  ELSE IF IsErr(x) /\ x.err = "MissingFact" THEN "missingfact"
  ELSE IF Expected(e, {"bidi_nsm_strict"}) = e.res THEN "known:bidi_nsm_strict"
  ELSE "mismatch"

\* Beyond the listed properties (documented on Rules/Profile: "the same string if no modifications were
\* required or a new allocated string"): the result is BORROWED iff the argument was handed over borrowed and
\* the operation left it unchanged.  Deviations are collected in `extra` and reported as notes, never as
\* violations of a listed property.
CowOk(e) ==
  IF e.ev # "call" \/ e.borrowed = "-" THEN TRUE
  ELSE (e.borrowed = "borrowed") = (e.arg \in {"str", "cow_b"} /\ IsOk(e.res) /\ e.res.ok = e.args[1])

Init == l = 1 /\ bad = <<>> /\ memo = <<>> /\ lastSeq = <<>> /\ extra = <<>>

Step ==
  /\ l <= Len(Rec)
  /\ LET e == Rec[l]  j == Judge(e) IN
       /\ bad' = IF j = "ok" THEN bad ELSE Append(bad, [l |-> l, j |-> j])
       /\ memo' = IF Key(e) \in DOMAIN memo THEN memo ELSE (Key(e) :> e.res) @@ memo
       /\ lastSeq' = (e.thread :> e.seq) @@ lastSeq
       /\ extra' = IF CowOk(e) THEN extra ELSE Append(extra, l)
  /\ l' = l + 1

Spec == Init /\ [][Step]_vars

Accepted == TLCGet("stats").diameter = Len(Rec) + 1
Report == (l = Len(Rec) + 1) => (PrintT(<<"BAD", ToJson(bad)>>) /\ PrintT(<<"EXTRA", ToJson(extra)>>))
=============================================================================
