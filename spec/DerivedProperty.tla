--------------------------- MODULE DerivedProperty ---------------------------
(***************************************************************************)
(* RFC 8264 section 8: the derived property of a code point as an ordered  *)
(* decision list over its category signature                               *)
(* (precis-core/src/stringclasses.rs:61-100).                              *)
(*                                                                         *)
(* A signature is a record                                                 *)
(*   [exc : "" or a property value (Exceptions, 9.6),                      *)
(*    bc  : "" or a property value (BackwardCompatible, 9.7; empty today), *)
(*    cat : the set of category names the code point belongs to]           *)
(* Signatures of real code points come from the oracle (pinned UCD data);  *)
(* the model checker also enumerates signatures no real code point has.    *)
(***************************************************************************)
EXTENDS Base

Cats == {"unas", "ascii7", "jc", "jamo", "ign", "ctrl", "compat", "ld", "old", "space", "sym", "punct"}

\* the order of RFC 8264 section 8, after Exceptions and BackwardCompatible
RuleOrder == <<"unas", "ascii7", "jc", "jamo", "ign", "ctrl", "compat", "ld", "old", "space", "sym", "punct">>

\* outcome of each rule; "CLS" stands for "ID_DIS or FREE_PVAL"
Outcome(cat) ==
  CASE cat = "unas"   -> "UNASSIGNED"
    [] cat = "ascii7" -> "PVALID"
    [] cat = "jc"     -> "CONTEXTJ"
    [] cat = "jamo"   -> "DISALLOWED"
    [] cat = "ign"    -> "DISALLOWED"
    [] cat = "ctrl"   -> "DISALLOWED"
    [] cat = "compat" -> "CLS"
    [] cat = "ld"     -> "PVALID"
    [] cat = "old"    -> "CLS"
    [] cat = "space"  -> "CLS"
    [] cat = "sym"    -> "CLS"
    [] cat = "punct"  -> "CLS"

ClsValue(cls) == IF cls = "Id" THEN "SPEC_DIS" ELSE "SPEC_PVAL"

\* walk an ordered rule list: the first rule the code point belongs to decides
RECURSIVE Walk(_, _, _, _)
Walk(order, k, cats, cls) ==
  IF k > Len(order) THEN "DISALLOWED"
  ELSE IF order[k] \in cats
       THEN (IF Outcome(order[k]) = "CLS" THEN ClsValue(cls) ELSE Outcome(order[k]))
       ELSE Walk(order, k + 1, cats, cls)

DerivedWith(order, sig, cls) ==
  IF sig.exc # "" THEN sig.exc
  ELSE IF sig.bc # "" THEN sig.bc
  ELSE Walk(order, 1, sig.cat, cls)

Derived(sig, cls) == DerivedWith(RuleOrder, sig, cls)

\* a value that is not a Unicode scalar value (surrogate, > U+10FFFF) has the empty signature
NonScalarSig == [exc |-> "", bc |-> "", cat |-> {}]

\* ---- RFC 8264 section 9.6 / RFC 5892 section 2.6 ---------------------------
ExcPValid     == {223, 962, 1789, 1790, 3851, 12295}                  \* 00DF 03C2 06FD 06FE 0F0B 3007
ExcContextO   == {183, 885, 1523, 1524, 12539} \cup (1632..1641) \cup (1776..1785)
                                                                      \* 00B7 0375 05F3 05F4 30FB 0660..0669 06F0..06F9
ExcDisallowed == {1600, 2042, 12334, 12335, 12347} \cup (12337..12341) \* 0640 07FA 302E 302F 303B 3031..3035
ExceptionOf(cp) == IF cp \in ExcPValid THEN "PVALID"
                   ELSE IF cp \in ExcContextO THEN "CONTEXTO"
                   ELSE IF cp \in ExcDisallowed THEN "DISALLOWED" ELSE ""
Ascii7 == 33..126
=============================================================================
