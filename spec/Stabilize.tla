------------------------------ MODULE Stabilize ------------------------------
(***************************************************************************)
(* precis_core::profile::stabilize (precis-core/src/profile.rs:175-195)    *)
(* for an ARBITRARY caller-supplied rule function f, as a loop machine.    *)
(*                                                                         *)
(*   D        the strings (opaque values)                                  *)
(*   E1, E2   two distinct errors f may return (f's own errors)            *)
(*   f        chosen in Init: D -> D \cup {E1, E2}                         *)
(* One Apply step is one call of the closure; `calls` is the history of    *)
(* the arguments passed to it (hidden from the fingerprint by a VIEW).     *)
(***************************************************************************)
EXTENDS Naturals, Sequences, FiniteSets

CONSTANTS D, E1, E2, MaxApps, Starts

VARIABLES f, s0, c, n, calls, res
vars == <<f, s0, c, n, calls, res>>

None == [none |-> TRUE]
Errs == {E1, E2}

Init == /\ f \in [D -> D \cup Errs]
        /\ s0 \in Starts
        /\ c = s0 /\ n = 0 /\ calls = <<>> /\ res = None

\* one iteration of the loop: tmp = f(&c)?; if tmp == c return Ok(c); c = tmp
Apply == /\ res = None /\ n < MaxApps
         /\ calls' = Append(calls, c)
         /\ IF f[c] \in Errs THEN res' = [err |-> f[c]] /\ UNCHANGED <<c, n>>
            ELSE IF f[c] = c THEN res' = [ok |-> c] /\ UNCHANGED <<c, n>>
            ELSE c' = f[c] /\ n' = n + 1 /\ UNCHANGED res
         /\ UNCHANGED <<f, s0>>

\* the loop is exhausted: Err(Error::Invalid)
GiveUp == /\ res = None /\ n = MaxApps
          /\ res' = [err |-> "Invalid"]
          /\ UNCHANGED <<f, s0, c, n, calls>>

Next == Apply \/ GiveUp
Spec == Init /\ [][Next]_vars /\ WF_vars(Next)

Done == res # None

\* ---- the contract of C13, stated independently of the loop ---------------------
RECURSIVE Iter(_, _, _)
\* k-fold application of g to x; an error is absorbing
Iter(g, x, k) == IF k = 0 \/ x \in Errs THEN x ELSE Iter(g, g[x], k - 1)
Orbit(g, x) == {Iter(g, x, k) : k \in 0..Cardinality(D)} \ Errs

\* the string stops changing within the first application plus three re-applications:
\* some k < 4 with f^k(s) in D and f(f^k(s)) = f^k(s), no error before
StopsWithin(g, x, m) == \E k \in 0..(m - 1) : Iter(g, x, k) \in D /\ g[Iter(g, x, k)] = Iter(g, x, k)
\* first error met within m applications, if any application before it changed the string
FirstErrWithin(g, x, m) ==
  \E k \in 0..(m - 1) : /\ Iter(g, x, k) \in D /\ g[Iter(g, x, k)] \in Errs
                        /\ \A j \in 0..(k - 1) : g[Iter(g, x, j)] # Iter(g, x, j)

Contract == Done =>
  /\ ("ok" \in DOMAIN res) => (f[res.ok] = res.ok /\ res.ok \in Orbit(f, s0))
  /\ ("ok" \in DOMAIN res) <=> StopsWithin(f, s0, 4)
  /\ Len(calls) <= 4
  /\ (res \in {[err |-> E1], [err |-> E2]}) <=> (~StopsWithin(f, s0, 4) /\ FirstErrWithin(f, s0, 4))
  /\ (res = [err |-> "Invalid"]) <=> (~StopsWithin(f, s0, 4) /\ ~FirstErrWithin(f, s0, 4))
  /\ (res \in {[err |-> E1], [err |-> E2]}) => res.err = f[calls[Len(calls)]]
  \* the arguments passed to f are exactly the orbit prefix
  /\ \A i \in 1..Len(calls) : calls[i] = Iter(f, s0, i - 1)

Terminates == <>Done
=============================================================================
