"""Model alphabets (DESIGN.md 2.3): roles, instances, generated MiniUnicode_<tag>.tla.

A role is a selection predicate plus one canonical representative.  Instance 0 takes the
canonical representatives; instance k > 0 draws, seeded, a member of each role's pool.
The pools only steer coverage: the attribute records of the chosen characters and of their
closure are produced by `pvh universe` from the oracle database and from std /
unicode-normalization called directly, so a badly chosen pool member cannot make a check
unsound."""
import json
import os
import random
import unicodedata

from common import CACHE, ensure_oracle, run_harness

_db = None


def db():
    global _db
    if _db is None:
        d = json.load(open(ensure_oracle()))
        n = 0x110000
        idp = [None] * n
        for lo, hi, v in d["idp"]:
            for cp in range(lo, hi + 1):
                idp[cp] = v
        bidi = ["L"] * n
        for lo, hi, v in d["bidi"]:
            for cp in range(lo, hi + 1):
                bidi[cp] = v
        a16 = bytearray(n)
        for lo, hi, v in d["assigned16"]:
            for cp in range(lo, hi + 1):
                a16[cp] = 1
        _db = {"raw": d, "idp": idp, "bidi": bidi, "a16": a16,
               "zs": [cp for lo, hi, _ in d["zs"] for cp in range(lo, hi + 1)],
               "wm": dict((a, b) for a, b in d["wm"]),
               "lower": dict((a, b) for a, b in d["lower16"]),
               "virama": [cp for lo, hi, _ in d["virama"] for cp in range(lo, hi + 1)],
               "jt": dict((cp, v) for lo, hi, v in d["jt"] for cp in range(lo, hi + 1)),
               "script": dict((cp, v) for lo, hi, v in d["script"] for cp in range(lo, hi + 1))}
    return _db


def _pv(cp):
    return db()["idp"][cp] == "PVALID"


def _ulen(cp):
    return 1 if cp < 0x80 else 2 if cp < 0x800 else 3 if cp < 0x10000 else 4


def _pool(pred, lo=0, hi=0x2FFFF, cap=400):
    out = []
    for cp in range(lo, hi + 1):
        if 0xD800 <= cp <= 0xDFFF:
            continue
        try:
            if pred(cp):
                out.append(cp)
                if len(out) >= cap:
                    break
        except Exception:
            pass
    return out


def _dec(cp):
    return unicodedata.decomposition(chr(cp))


# role name -> (canonical representative, pool builder)
ROLES = {
    # 1 byte
    "a": (0x61, lambda: [c for c in range(0x61, 0x7B) if c != 0x6C]),
    "A": (0x41, lambda: list(range(0x41, 0x5B))),
    "l": (0x6C, lambda: [0x6C]),
    "capJ": (0x4A, lambda: [0x4A]),          # J + U+030C: only the lowercase has a precomposed form (U+01F0)
    "capH": (0x48, lambda: [0x48, 0x54, 0x57, 0x59]),   # H/T/W/Y + U+0331/0308/030A: likewise (U+1E96..U+1E99)
    "caron": (0x30C, lambda: [0x30C]),
    "lowj": (0x6A, lambda: [0x6A]),
    "jcar": (0x1F0, lambda: [0x1F0]),
    "macronb": (0x331, lambda: [0x331, 0x308, 0x30A]),
    "d1": (0x31, lambda: list(range(0x30, 0x3A))),
    "hy": (0x2D, lambda: [0x2D, 0x2B]),
    "dot": (0x2E, lambda: [0x2E, 0x2C, 0x3A, 0x2F]),
    "bang": (0x21, lambda: [0x21, 0x22, 0x26, 0x2A, 0x3B, 0x3F, 0x40]),
    "SP": (0x20, lambda: [0x20]),
    "TAB": (0x09, lambda: list(range(0x00, 0x20))),
    "DEL": (0x7F, lambda: [0x7F]),
    "LSEP": (0x2028, lambda: [0x2028, 0x2029, 0x85]),    # White_Space but not Zs
    # 2 bytes
    "eac": (0xE9, lambda: _pool(lambda c: _pv(c) and _ulen(c) == 2 and len(_dec(c).split()) == 2 and not _dec(c).startswith("<")
                                and c not in db()["lower"] and int(_dec(c).split()[0], 16) < 0x80, 0xC0, 0x24F)),
    "Eac": (0xC9, lambda: _pool(lambda c: _pv(c) and _ulen(c) == 2 and len(_dec(c).split()) == 2 and not _dec(c).startswith("<")
                                and c in db()["lower"] and int(_dec(c).split()[0], 16) < 0x80, 0xC0, 0x24F)),
    "e": (0x65, lambda: [0x65, 0x61, 0x6F, 0x75, 0x69]),
    "acute": (0x301, lambda: [0x301, 0x300, 0x302, 0x303, 0x308]),
    "cedil": (0x327, lambda: [0x327, 0x328, 0x323]),
    # a mark below that composes with nothing (NFC/NFKC quick check Yes, class 220): a composing mark behind it must reach the base across it
    "vlb": (0x329, lambda: [0x329, 0x316, 0x317, 0x31C, 0x32A, 0x332]),
    # a combining mark with NFC quick check No: its canonical decomposition is another mark (U+0341 -> U+0301, U+0340 -> U+0300, U+0343 -> U+0313)
    "tone": (0x341, lambda: [0x341, 0x340, 0x343]),
    # not width-mapped although on the page of the halfwidth / fullwidth forms
    "ffun": (0xFFFD, lambda: [0xFFFD, 0xFFE7, 0xFFFC]),
    "NBSP": (0xA0, lambda: [0xA0]),
    "micro": (0xB5, lambda: [0xB5]),                      # Latin-1 compatibility characters (below U+00C0)
    "sup2": (0xB2, lambda: [0xB2, 0xB3, 0xB9]),
    "ordm": (0xBA, lambda: [0xBA, 0xAA]),
    "mu": (0x3BC, lambda: [0x3BC]),
    "two": (0x32, lambda: [0x32]),
    "o": (0x6F, lambda: [0x6F]),
    "diaer": (0xA8, lambda: [0xA8, 0xAF, 0xB4, 0xB8, 0x2D8, 0x2D9, 0x2DA]),
    "mdot": (0xB7, lambda: [0xB7]),
    "heb": (0x5D0, lambda: _pool(lambda c: _pv(c) and db()["bidi"][c] == "R" and db()["script"].get(c) == "Hebrew", 0x5D0, 0x5EA)),
    "hpt": (0x5B8, lambda: _pool(lambda c: _pv(c) and db()["bidi"][c] == "NSM", 0x591, 0x5C7)),
    "geresh": (0x5F3, lambda: [0x5F3, 0x5F4]),
    "arab": (0x628, lambda: _pool(lambda c: _pv(c) and db()["bidi"][c] == "AL" and db()["jt"].get(c) == "D", 0x620, 0x6FF)),
    "alef": (0x627, lambda: _pool(lambda c: _pv(c) and db()["bidi"][c] == "AL" and db()["jt"].get(c) == "R", 0x620, 0x6FF)),
    "fatha": (0x64E, lambda: _pool(lambda c: _pv(c) and db()["bidi"][c] == "NSM" and db()["jt"].get(c) == "T", 0x64B, 0x65F)),
    "aid": (0x661, lambda: list(range(0x660, 0x66A))),
    "eaid": (0x6F1, lambda: list(range(0x6F0, 0x6FA))),
    "keraia": (0x375, lambda: [0x375]),
    "grk": (0x3B1, lambda: _pool(lambda c: _pv(c) and db()["script"].get(c) == "Greek" and c not in db()["lower"] and not _dec(c), 0x3B1, 0x3C9)),
    "GRK": (0x391, lambda: _pool(lambda c: _pv(c) and db()["script"].get(c) == "Greek" and c in db()["lower"] and not _dec(c), 0x391, 0x3A9)),
    "Sig": (0x3A3, lambda: [0x3A3]),
    "dz": (0x1C5, lambda: [0x1C5, 0x1C8, 0x1CB, 0x1F2]),
    "dotI": (0x130, lambda: [0x130]),
    "nko": (0x7CA, lambda: _pool(lambda c: _pv(c) and db()["bidi"][c] == "R", 0x7CA, 0x7EA)),
    # 3 bytes
    "han": (0x65E5, lambda: _pool(lambda c: _pv(c) and db()["script"].get(c) == "Han", 0x4E00, 0x4F00)),
    "hira": (0x3042, lambda: _pool(lambda c: _pv(c) and db()["script"].get(c) == "Hiragana" and not _dec(c), 0x3041, 0x3096)),
    "kata": (0x30A2, lambda: _pool(lambda c: _pv(c) and db()["script"].get(c) == "Katakana" and not _dec(c), 0x30A1, 0x30FA)),
    "kmdot": (0x30FB, lambda: [0x30FB]),
    "cjkp": (0x3001, lambda: [0x3001, 0x3002, 0x300C, 0x300D, 0xFFFD, 0xFFE7]),   # same UTF-8 lead bytes as the mapped characters
    "ISP": (0x3000, lambda: [0x3000]),
    "OGH": (0x1680, lambda: [0x1680]),
    "EQD": (0x2000, lambda: [0x2000, 0x2001]),
    "EMSP": (0x2003, lambda: [c for c in db()["zs"] if 0x2002 <= c <= 0x200A] + [0x202F, 0x205F]),
    "FWA": (0xFF21, lambda: list(range(0xFF21, 0xFF3B))),
    "fwa": (0xFF41, lambda: list(range(0xFF41, 0xFF5B))),
    "FWBANG": (0xFF01, lambda: [0xFF01, 0xFF0A, 0xFF1F]),
    "HWK": (0xFF76, lambda: list(range(0xFF71, 0xFF9E))),
    "ZWNJ": (0x200C, lambda: [0x200C]),
    "ZWJ": (0x200D, lambda: [0x200D]),
    "vir": (0x94D, lambda: [c for c in db()["virama"] if _pv(c) and _ulen(c) == 3]),
    "deva": (0x915, lambda: list(range(0x915, 0x93A))),
    "ljoin": (0xA872, lambda: [0xA872]),
    "angst": (0x212B, lambda: [0x212B, 0x2126, 0x212A]),
    "rom4": (0x2163, lambda: list(range(0x2160, 0x216C))),
    "ypo": (0x1F88, lambda: list(range(0x1F88, 0x1F90)) + list(range(0x1F98, 0x1FA0)) + list(range(0x1FA8, 0x1FB0)) + [0x1FBC, 0x1FCC, 0x1FFC]),
    "cher": (0x13A0, lambda: list(range(0x13A0, 0x13F5))),
    "unas": (0x378, lambda: [0x378, 0x379, 0x530, 0x557]),
    "jamo": (0x1100, lambda: list(range(0x1100, 0x1113))),
    "hcj": (0x3131, lambda: [0x3131, 0x3134, 0x3137, 0x3139]),
    "jamoV": (0x1161, lambda: list(range(0x1161, 0x1176))),
    "jamoT": (0x11A8, lambda: list(range(0x11A8, 0x11C3))),
    "hsyl": (0xAC00, lambda: [0xAC00, 0xAC1C, 0xB098, 0xD55C]),
    "thai": (0xE01, lambda: list(range(0xE01, 0xE2F))),
    # 4 bytes
    "goth": (0x10330, lambda: list(range(0x10330, 0x1034A))),
    "DSR": (0x10400, lambda: list(range(0x10400, 0x10428))),
    "dsr": (0x10428, lambda: list(range(0x10428, 0x10450))),
    "emo": (0x1F600, lambda: list(range(0x1F600, 0x1F640))),
    "phn": (0x10900, lambda: list(range(0x10900, 0x10916))),
    "mus": (0x1D15E, lambda: list(range(0x1D15E, 0x1D165))),
    "lin": (0x10000, lambda: list(range(0x10000, 0x1000C))),
}


def choose(roles, instance, seed):
    """role name -> code point for this instance"""
    out = {}
    rng = random.Random((seed * 1000003 + instance * 7919) & 0xFFFFFFFF)
    used = set()
    for r in roles:
        canon, poolf = ROLES[r]
        cp = canon
        if instance > 0:
            pool = [c for c in poolf() if c not in used] or [canon]
            cp = rng.choice(pool)
        if cp in used:
            cp = canon
        used.add(cp)
        out[r] = cp
    return out


def _tla_seq(v):
    return "<<" + ", ".join(str(x) for x in v) + ">>"


def _tla_bool(b):
    return "TRUE" if b else "FALSE"


def _attr_tla(c):
    return ('[cp |-> %d, idp |-> "%s", vir |-> %s, jt |-> "%s", sc |-> "%s", zs |-> %s, wm |-> %d, lower |-> %s, bidi |-> "%s", '
            'ccc |-> %d, cdec |-> %s, kdec |-> %s]' % (
                c["cp"], c["idp"], _tla_bool(c["vir"]), c["jt"], c["sc"], _tla_bool(c["zs"]), c["wm"], _tla_seq(c["lower"]),
                c["bidi"], c["ccc"], _tla_seq(c["cdec"]), _tla_seq(c["kdec"])))


def generate(roles, instance=0, seed=1, extra_cps=(), tag="u", sigma=None):
    """returns (path of generated MiniUnicode.tla, role->cp, closure info)"""
    chosen = choose(roles, instance, seed)
    cps = sorted(set(chosen.values()) | set(extra_cps))
    out, _ = run_harness(["universe", "--oracle", ensure_oracle(), "--cps", ",".join(str(c) for c in cps)])
    u = json.loads(out)
    lines = ["---------------------------- MODULE MiniUnicode ----------------------------",
             "(* GENERATED by lib/universe.py: roles %s, instance %d, seed %d.                *)" % (",".join(roles), instance, seed),
             "(* Attribute records of the chosen characters and of their closure under lower-  *)",
             "(* casing, width mapping, (de)composition; data from the pinned UCD copies and    *)",
             "(* from std / unicode-normalization called directly.                             *)",
             "EXTENDS Base", ""]
    lines.append("MU == (")
    lines.append("  @@\n".join("  %d :> %s" % (c["cp"], _attr_tla(c)) for c in u["chars"]))
    lines.append(")")
    if u["comp"]:
        lines.append("MComp == (" + " @@ ".join("<<%d, %d>> :> %d" % (a, b, c) for a, b, c in u["comp"]) + ")")
    else:
        lines.append("MComp == [x \\in {} |-> 0]")
    lines.append('MiniW == [mode |-> "algo", u |-> MU, comp |-> MComp, facts |-> <<>>, dev |-> {}]')
    lines.append("SigmaIn == {%s}" % ", ".join(str(chosen[r]) for r in (sigma or roles)))
    lines.append("SigmaAll == DOMAIN MU")
    lines.append("Role == [%s]" % ", ".join("%s |-> %d" % (r, chosen[r]) for r in roles))
    lines.append("=============================================================================")
    d = os.path.join(CACHE, "mu-%d-%s" % (os.getpid(), tag))
    os.makedirs(d, exist_ok=True)
    path = os.path.join(d, "MiniUnicode.tla")
    with open(path, "w") as f:
        f.write("\n".join(lines) + "\n")
    return path, chosen, u
