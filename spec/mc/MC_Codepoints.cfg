SPECIFICATION Spec
CONSTANT W = 7
INVARIANT PairOk
INVARIANT TableOk
INVARIANT Emit
CHECK_DEADLOCK FALSE
