---------------------------- MODULE MC_TableGen ----------------------------
(***************************************************************************)
(* C15: every well-formed UnicodeData-like input over a universe of M code *)
(* points and NV attribute values, built line by line; every generator     *)
(* machine steps on each folded entry; at every state without an open      *)
(* First line the emitted tables are compared with what the input assigns. *)
(***************************************************************************)
EXTENDS TableGen, Json

CONSTANTS M,          \* universe 0..M-1
          NV,         \* attribute values 1..NV
          WfOnly  \* TRUE: only well-formed inputs (C15); FALSE: any sequence of single/first/last lines in
                      \* increasing code point order, to exercise the rejecting transitions of First/Last folding

U == 0..(M - 1)
Vals == 1..NV

\* value 1: the tracked general category; value 2: combining class 9 (virama); value 3: <wide>/<narrow> mapping
BidiOf(v) == IF v = 1 THEN "L" ELSE IF v = 2 THEN "NSM" ELSE "R"
WmTarget(cp) == 32 + (cp \div 2)      \* not injective: neighbouring entries may share a mapping target

VARIABLES lines, last, fold, gc, vir, un, bidi, wm
vars == <<lines, last, fold, gc, vir, un, bidi, wm>>

Init == /\ lines = <<>> /\ last = -1 /\ fold = FoldInit
        /\ gc = SetInit /\ vir = SetInit /\ un = UnInit /\ bidi = BidiInit /\ wm = <<>>

\* well-formed input: strictly increasing code points; a First line is followed by its Last line with the same attributes
AddLine(cp, kind, v) ==
  /\ cp > last /\ cp \in U
  /\ WfOnly => ( /\ ((fold.pending # -1) => (kind = "last" /\ v = fold.pv))
                  /\ ((fold.pending = -1) => kind \in {"single", "first"})
                  /\ (kind = "first" => cp < M - 1) )
  /\ fold.err = ""                                   \* the code stops at the first error
  /\ LET line == [cp |-> cp, kind |-> kind, v |-> v]
         f == FoldStep(fold, line) IN
       /\ lines' = Append(lines, line)
       /\ last' = cp
       /\ fold' = f.st
       /\ IF f.out = <<>> THEN UNCHANGED <<gc, vir, un, bidi, wm>>
          ELSE LET e == f.out[1] IN
               /\ gc'   = SetStep(gc, e, e.v = 1)
               /\ vir'  = SetStep(vir, e, e.v = 2)
               /\ un'   = UnStep(un, e)
               /\ bidi' = BidiStep(bidi, e, BidiOf(e.v))
               /\ wm'   = WmStep(wm, e, e.v = 3, WmTarget(e.hi))   \* the attributes of a folded range are those of its Last line
Next == \E cp \in U, kind \in {"single", "first", "last"}, v \in Vals : AddLine(cp, kind, v)
Spec == Init /\ [][Next]_vars

Complete == fold.pending = -1 /\ fold.err = ""

\* ---- what the input assigns ------------------------------------------------------------
RECURSIVE EntriesOf(_, _)
EntriesOf(ls, i) ==
  IF i > Len(ls) THEN <<>>
  ELSE IF ls[i].kind = "single" THEN <<[lo |-> ls[i].cp, hi |-> ls[i].cp, v |-> ls[i].v]>> \o EntriesOf(ls, i + 1)
  ELSE IF ls[i].kind = "first" /\ i < Len(ls) THEN <<[lo |-> ls[i].cp, hi |-> ls[i + 1].cp, v |-> ls[i].v]>> \o EntriesOf(ls, i + 2)
  ELSE <<>>
Entries == EntriesOf(lines, 1)
Listed == UNION {Entries[i].lo..Entries[i].hi : i \in 1..Len(Entries)}
ValOf(cp) == LET i == CHOOSE i \in 1..Len(Entries) : cp \in Entries[i].lo..Entries[i].hi IN Entries[i].v
WithVal(v) == {cp \in Listed : ValOf(cp) = v}

\* ---- the emitted tables ----------------------------------------------------------------------
GcTable   == SetTable(gc.set)
VirTable  == SetTable(vir.set)
UnTable   == un.vec
BidiTable == BidiFlush(bidi)
WmTable   == wm
BidiKeys  == [i \in 1..Len(BidiTable) |-> BidiTable[i].x]
WmKeys    == [i \in 1..Len(WmTable) |-> WmTable[i].x]

\* ---- C15 -------------------------------------------------------------------------------------------
NoSpuriousError == fold.err = "" /\ gc.err = "" /\ vir.err = ""
SetTablesFaithful == Complete =>
  /\ DenoteSet(GcTable, U) = WithVal(1) /\ Sorted(GcTable) /\ Searchable(GcTable, U)
  /\ DenoteSet(VirTable, U) = WithVal(2) /\ Sorted(VirTable) /\ Searchable(VirTable, U)
\* unassigned gaps: everything not listed, up to the last listed code point.  Deliberate, named
\* deviation of the code: the gap AFTER the last listed code point is never emitted
\* (every real UnicodeData lists U+10FFFD; U+10FFFE/F are noncharacters the consumer excludes).
UnassignedFaithful == Complete =>
  /\ DenoteSet(UnTable, U) = {cp \in U : cp \notin Listed /\ cp < last}
  /\ Searchable(UnTable, U)
\* with the last code point of the universe listed (what a real UnicodeData guarantees), exactly the gaps
UnassignedExact == (Complete /\ last = M - 1) => DenoteSet(UnTable, U) = U \ Listed
BidiFaithful == Complete =>
  /\ \A cp \in U : (KeyedSearch(BidiTable, cp) # 0) = (cp \in Listed)
  /\ \A cp \in Listed : BidiTable[KeyedSearch(BidiTable, cp)].c = BidiOf(ValOf(cp))
  /\ Sorted(BidiKeys)                                                          \* no code point covered twice
WidthFaithful == Complete =>
  /\ \A cp \in U : (KeyedSearch(WmTable, cp) # 0) = (cp \in WithVal(3))
  /\ \A i \in 1..Len(WmTable) : WmTable[i].t = WmTarget(Hi(WmTable[i].x))
  /\ Sorted(WmKeys)

\* ---- malformed inputs: the folding either rejects with the right error, or (a First line at the very end of
\* the file) silently ignores the open range.  Deviation named here: the code does not report a dangling First.
FoldErrorIsJustified == fold.err # "" =>
  LET n == Len(lines)  lastl == lines[n] IN
    \/ fold.err = "expected end of range" /\ n >= 2 /\ lines[n - 1].kind = "first" /\ lastl.kind # "last"
    \/ fold.err = "end of range without start" /\ lastl.kind = "last" /\ (n = 1 \/ lines[n - 1].kind # "first")
    \/ fold.err = "start greater than end"
EveryMalformationIsRejected == (fold.err = "" /\ Len(lines) >= 1) =>
  \A i \in 1..Len(lines) :
     /\ lines[i].kind = "last" => (i > 1 /\ lines[i - 1].kind = "first")
     /\ (lines[i].kind = "first" /\ i < Len(lines)) => lines[i + 1].kind = "last"

Den(t) == [cp \in U |-> \E i \in 1..Len(t) : Contains(t[i], cp)]
\* unassigned table: code points after the last listed one are "don't care" for conformance (the code omits that
\* gap, an implementation that emits it is at least as right)
DenUn(t) == [cp \in U |-> IF cp > last THEN "either" ELSE IF \E i \in 1..Len(t) : Contains(t[i], cp) THEN "yes" ELSE "no"]
EmitErr == (fold.err # "") => PrintT(<<"REPLAY", ToJson([k |-> "generr", m |-> M, lines |-> lines, err |-> fold.err])>>)
\* a First line at the very end of the file: the code silently ignores the open range (named deviation)
EmitDangling == (~WfOnly /\ fold.pending # -1 /\ fold.err = "") => PrintT(<<"REPLAY", ToJson([k |-> "gen", m |-> M, lines |-> lines, dangling |-> TRUE,
          gc |-> Den(GcTable), vir |-> Den(VirTable), un |-> DenUn(UnTable),
          bidi |-> [cp \in U |-> IF KeyedSearch(BidiTable, cp) = 0 THEN "-" ELSE BidiTable[KeyedSearch(BidiTable, cp)].c],
          wm |-> [cp \in U |-> IF KeyedSearch(WmTable, cp) = 0 THEN -1 ELSE WmTable[KeyedSearch(WmTable, cp)].t]])>>)
Emit == Complete => PrintT(<<"REPLAY", ToJson([k |-> "gen", m |-> M, lines |-> lines, dangling |-> FALSE,
          gc |-> Den(GcTable), vir |-> Den(VirTable), un |-> DenUn(UnTable),
          bidi |-> [cp \in U |-> IF KeyedSearch(BidiTable, cp) = 0 THEN "-" ELSE BidiTable[KeyedSearch(BidiTable, cp)].c],
          wm |-> [cp \in U |-> IF KeyedSearch(WmTable, cp) = 0 THEN -1 ELSE WmTable[KeyedSearch(WmTable, cp)].t]])>>)
=============================================================================
