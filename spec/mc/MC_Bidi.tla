------------------------------- MODULE MC_Bidi -------------------------------
(***************************************************************************)
(* C09.  Both the RFC 5893 rule and the code's scan are finite-state over  *)
(* the bidirectional classes, so their PRODUCT is a finite model of labels *)
(* of EVERY length:                                                        *)
(*   m     monitor of the declarative rule (direction, all-allowed,        *)
(*         class of the last non-NSM character, saw EN / AN, interior NSM) *)
(*   rf    registers of the RFC-shaped scan  (nsmStrict = FALSE)           *)
(*   rs    registers of the scan as coded    (nsmStrict = TRUE)            *)
(* With Bounded = TRUE the label itself is carried (up to MaxLen) so that  *)
(* the monitor is checked against the declarative RfcBidi and behaviours   *)
(* can be emitted for replay.                                              *)
(***************************************************************************)
EXTENDS Bidi, Json

CONSTANTS Classes,    \* the classes labels are built from
          Bounded, MaxLen

VARIABLES len0,  \* is the label still empty
          m, rf, rs, cs
vars == <<len0, m, rf, rs, cs>>

NoM == [first |-> "", okRtl |-> TRUE, okLtr |-> TRUE, lastNon |-> "", en |-> FALSE, an |-> FALSE,
        nsmSeen |-> FALSE, interior |-> FALSE, rtl |-> FALSE]
NoR == [prev |-> "", nsm |-> FALSE, en |-> FALSE, an |-> FALSE, dead |-> FALSE]

Init == len0 = TRUE /\ m = NoM /\ rf = NoR /\ rs = NoR /\ cs = <<>>

MonStep(mm, c, isFirst) ==
  [first   |-> IF isFirst THEN c ELSE mm.first,
   okRtl   |-> mm.okRtl /\ c \in RtlAllowed,
   okLtr   |-> mm.okLtr /\ c \in LtrAllowed,
   lastNon |-> IF c = "NSM" THEN mm.lastNon ELSE c,
   en      |-> mm.en \/ c = "EN",
   an      |-> mm.an \/ c = "AN",
   nsmSeen |-> mm.nsmSeen \/ c = "NSM",
   interior |-> mm.interior \/ (mm.nsmSeen /\ c # "NSM"),
   rtl     |-> mm.rtl \/ c \in {"R", "AL", "AN"}]

ScanStep(strict, r, c, isFirst, first) ==
  IF isFirst THEN (IF c \in {"R", "AL", "L"} THEN [NoR EXCEPT !.prev = c] ELSE [NoR EXCEPT !.dead = TRUE])
  ELSE IF first \in {"R", "AL"} THEN RtlStep(strict, r, c) ELSE LtrStep(strict, r, c)

Add(c) == /\ (Bounded => Len(cs) < MaxLen)
          /\ m'  = MonStep(m, c, len0)
          /\ rf' = ScanStep(FALSE, rf, c, len0, m.first)
          /\ rs' = ScanStep(TRUE,  rs, c, len0, m.first)
          /\ cs' = IF Bounded THEN Append(cs, c) ELSE cs
          /\ len0' = FALSE
Next == \E c \in Classes : Add(c)
Spec == Init /\ [][Next]_vars

\* verdicts
MonVerdict == IF len0 THEN TRUE
              ELSE /\ m.first \in {"L", "R", "AL"}
                   /\ m.first \in {"R", "AL"} => (m.okRtl /\ m.lastNon \in RtlEnd /\ ~(m.en /\ m.an))
                   /\ m.first = "L" => (m.okLtr /\ m.lastNon \in LtrEnd)
ScanVerdict(strict, r) == IF len0 THEN TRUE
                          ELSE IF m.first \in {"R", "AL"} THEN RtlAccept(strict, r)
                          ELSE IF m.first = "L" THEN LtrAccept(strict, r) ELSE FALSE

\* ---- all lengths (product) -----------------------------------------------------------
\* the RFC-shaped scan accepts exactly the labels the six conditions accept
ScanIsRfc == ScanVerdict(FALSE, rf) = MonVerdict
\* every label on which the scan AS CODED differs has the shape of the known finding:
\* the RFC accepts, the code rejects, and a non-NSM character follows an NSM
FindingShape == (ScanVerdict(TRUE, rs) # MonVerdict) => (MonVerdict /\ ~ScanVerdict(TRUE, rs) /\ m.interior)
\* and without an interior NSM the code is exactly the RFC
NoInteriorNoDifference == ~m.interior => ScanVerdict(TRUE, rs) = MonVerdict

\* ---- bounded: the monitor and the recursive scans against the declarative rule -------
MonitorIsDeclarative == Bounded =>
  /\ MonVerdict = RfcBidi(cs)
  /\ ScanBidi(FALSE, cs) = RfcBidi(cs)
  /\ ScanBidi(TRUE, cs) = ScanVerdict(TRUE, rs)
  /\ m.interior = InteriorNsm(cs)
  /\ m.rtl = HasRtlClasses(cs)

Emit == Bounded => PrintT(<<"REPLAY", ToJson([k |-> "bidi", cs |-> cs, rtl |-> m.rtl,
                                              ok |-> (m.rtl => MonVerdict), devok |-> (m.rtl => ScanVerdict(TRUE, rs))])>>)
=============================================================================
