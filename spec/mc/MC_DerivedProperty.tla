-------------------------- MODULE MC_DerivedProperty --------------------------
(***************************************************************************)
(* C14, model level: the RFC 8264 section 8 decision list over EVERY       *)
(* category signature (including combinations no real code point has).     *)
(* Conformance of the code on real code points is layer L1                 *)
(* (Trace_CodePoints.tla), which evaluates the same Derived operator.      *)
(***************************************************************************)
EXTENDS DerivedProperty

VARIABLE sig
Init == sig \in [exc : {"", "PVALID", "CONTEXTO", "DISALLOWED"}, bc : {"", "PVALID", "DISALLOWED"}, cat : SUBSET Cats]
Next == UNCHANGED sig
Spec == Init /\ [][Next]_sig

Id == Derived(sig, "Id")
Ff == Derived(sig, "Ff")

\* the two classes agree everywhere except that IdentifierClass disallows exactly what FreeformClass class-validates
ClassesAgree == /\ (Id = "SPEC_DIS") <=> (Ff = "SPEC_PVAL")
                /\ Id # "SPEC_DIS" => Id = Ff
                /\ Id # "SPEC_PVAL" /\ Ff # "SPEC_DIS"
\* Exceptions, then BackwardCompatible, win over everything
ExceptionsFirst == /\ sig.exc # "" => Id = sig.exc /\ Ff = sig.exc
                   /\ (sig.exc = "" /\ sig.bc # "") => Id = sig.bc /\ Ff = sig.bc
\* the decision list proper
ListOutcome == (sig.exc = "" /\ sig.bc = "") =>
  /\ "unas" \in sig.cat => Id = "UNASSIGNED"
  /\ ("unas" \notin sig.cat /\ "ascii7" \in sig.cat) => Id = "PVALID"
  /\ (sig.cat \cap {"unas", "ascii7"} = {} /\ "jc" \in sig.cat) => Id = "CONTEXTJ"
  /\ (sig.cat \cap {"unas", "ascii7", "jc"} = {} /\ sig.cat \cap {"jamo", "ign", "ctrl"} # {}) => Id = "DISALLOWED"
  /\ (sig.cat \cap {"unas", "ascii7", "jc", "jamo", "ign", "ctrl"} = {} /\ "compat" \in sig.cat) => (Id = "SPEC_DIS" /\ Ff = "SPEC_PVAL")
  /\ (sig.cat \cap {"unas", "ascii7", "jc", "jamo", "ign", "ctrl", "compat"} = {} /\ "ld" \in sig.cat) => Id = "PVALID"
  /\ (sig.cat \cap {"unas", "ascii7", "jc", "jamo", "ign", "ctrl", "compat", "ld"} = {} /\ sig.cat # {}) => (Id = "SPEC_DIS" /\ Ff = "SPEC_PVAL")
  /\ sig.cat = {} => Id = "DISALLOWED"
NonScalarDisallowed == Derived(NonScalarSig, "Id") = "DISALLOWED" /\ Derived(NonScalarSig, "Ff") = "DISALLOWED"

\* the order matters: for every adjacent pair of rules with different outcomes there is a signature on which
\* swapping the two changes the derived property (so an implementation that reorders them is distinguishable)
Swap(order, k) == [i \in 1..Len(order) |-> IF i = k THEN order[k + 1] ELSE IF i = k + 1 THEN order[k] ELSE order[i]]
ASSUME OrderSensitive ==
  \A k \in 1..(Len(RuleOrder) - 1) :
     Outcome(RuleOrder[k]) # Outcome(RuleOrder[k + 1]) =>
        \E cats \in SUBSET Cats : Walk(Swap(RuleOrder, k), 1, cats, "Id") # Walk(RuleOrder, 1, cats, "Id")
=============================================================================
