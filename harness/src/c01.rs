//! C01 driver: exhaustive small-alphabet strings and random UTF-8 strings through EVERY public
//! operation, under catch_unwind.  Reports panics (and nothing else).

use crate::api::*;
use crate::oracle::Oracle;
use crate::record::Pools;
use crate::util::*;
use serde_json::{json, Value};
use std::sync::{Arc, Mutex};

const ALPHABET: [u32; 13] = [0x61, 0xe9, 0x65e5, 0x1f600, 0x20, 0xa0, 0x1680, 0x41, 0xff21, 0x301, 0x200d, 0x09, 0x2028];

fn positions(n: usize) -> Vec<usize> {
    let mut v: Vec<usize> = (0..n + 3).collect();
    v.extend([usize::MAX, usize::MAX - 1, 1usize << 63, (1usize << 32) + 1]);
    v
}

/// every public operation on one string; returns the number of calls made
fn all_ops(s: &str, panics: &Mutex<Vec<Value>>) -> u64 {
    let mut calls = 0u64;
    let mut note = |what: Value, r: &Value| {
        if r.get("panic").is_some() {
            let mut p = panics.lock().unwrap();
            if p.len() < 200 {
                p.push(json!({"op": what, "in": string_to_cps(s), "res": r}));
            }
        }
    };
    let args = [s.to_string()];
    for p in PROFILES.iter() {
        for op in ["prepare", "enforce"].iter().chain(RULES.iter()) {
            // borrowed and owned arguments take different paths through the Cow-returning functions
            for (kn, kind) in [("str", ArgKind::Str), ("string", ArgKind::Owned)] {
                let (r, _) = call_profile_full(p, "inst", op, kind, &args);
                note(json!([p, op, kn]), &r);
                calls += 1;
            }
        }
        let r = call_profile(p, "compare", &[s.to_string(), s.to_string()]);
        note(json!([p, "compare"]), &r);
        let r = call_profile(p, "compare", &[s.to_string(), "a".to_string()]);
        note(json!([p, "compare-a"]), &r);
        calls += 2;
    }
    for cls in ["Id", "Ff"] {
        let r = call_allows(cls, s);
        note(json!([cls, "allows"]), &r);
        calls += 1;
    }
    let n = s.chars().count();
    for rule in CTX_RULES.iter() {
        for off in positions(n) {
            let r = call_ctx(rule, s, off);
            note(json!([rule, off as u64]), &r);
            calls += 1;
        }
    }
    calls
}

// ---- deep inputs: long runs of one character next to contextual characters, on a thread with a small stack ----------
// "never panics, ABORTS ...": a stack overflow cannot be caught, it takes the process down.  The cases therefore run in
// a child process that records the case it is about to execute in a side file; the parent turns the death of the child
// into a reported case and restarts it behind that case.
const DEEP_FILLERS: [(u32, bool); 19] = [
    (0x64b, false), (0x300, false), (0x94d, false), (0x200d, false), (0x200c, false), (0x20, false), (0xa0, false), (0x3000, false), (0x61, false),
    (0x41, false), (0x661, true), (0x6f1, true), (0x30fb, true), (0xb7, false), (0x5d0, false), (0x1100, false), (0x1161, false), (0xff21, false), (0x130, false),
];
const DEEP_FRAMES: [(&str, &str); 7] = [
    ("\u{628}", "\u{200c}\u{628}"), ("\u{628}\u{200c}", "\u{628}"), ("a", "b"), ("", ""), ("\u{915}\u{94d}\u{200d}", "a"), ("l\u{b7}l", "\u{30ab}"), ("\u{30ab}\u{30fb}", "\u{5d0}"),
];

fn deep_cases() -> Vec<(usize, usize)> {
    let mut v = Vec::new();
    for fi in 0..DEEP_FILLERS.len() {
        for fr in 0..DEEP_FRAMES.len() {
            // fillers whose own context rule scans the whole label make every operation quadratic: two frames only
            if DEEP_FILLERS[fi].1 && fr > 1 {
                continue;
            }
            v.push((fi, fr));
        }
    }
    v
}

fn deep_string(case: (usize, usize)) -> (String, usize, usize) {
    let (cp, quadratic) = DEEP_FILLERS[case.0];
    let (pre, post) = DEEP_FRAMES[case.1];
    let n = if quadratic { 6144 } else { 16384 };
    let mut s = String::from(pre);
    s.extend(std::iter::repeat(char::from_u32(cp).unwrap()).take(n));
    s.push_str(post);
    (s, pre.chars().count(), n)
}

fn deep_child(args: &[String]) {
    use std::os::unix::fs::FileExt;
    silence_panics();
    let progress = arg_value(args, "--progress").unwrap_or_else(|| tool_error("--progress"));
    let from = arg_u64(args, "--from", 0) as usize;
    let f = std::fs::OpenOptions::new().create(true).write(true).open(&progress).unwrap_or_else(|e| tool_error(&e.to_string()));
    let h = std::thread::Builder::new()
        .stack_size(192 * 1024)
        .spawn(move || {
            silence_panics();
            let panics = Mutex::new(Vec::new());
            let mut calls = 0u64;
            for (idx, case) in deep_cases().into_iter().enumerate().skip(from) {
                let _ = f.write_at(&((idx + 1) as u64).to_le_bytes(), 0);
                let (s, pre, n) = deep_string(case);
                let args = [s.clone()];
                let mut note = |what: Value, r: &Value| {
                    if r.get("panic").is_some() {
                        panics.lock().unwrap().push(json!({"op": what, "deep_case": [DEEP_FILLERS[case.0].0, DEEP_FRAMES[case.1].0, DEEP_FRAMES[case.1].1], "run": n, "res": r}));
                    }
                };
                for p in PROFILES.iter() {
                    for op in ["prepare", "enforce"].iter().chain(RULES.iter()) {
                        let (r, _) = call_profile_full(p, "inst", op, ArgKind::Str, &args);
                        note(json!([p, op]), &r);
                        calls += 1;
                    }
                    let r = call_profile(p, "compare", &[s.clone(), s.clone()]);
                    note(json!([p, "compare"]), &r);
                    calls += 1;
                }
                for cls in ["Id", "Ff"] {
                    let r = call_allows(cls, &s);
                    note(json!([cls, "allows"]), &r);
                    calls += 1;
                }
                let total = s.chars().count();
                for rule in CTX_RULES.iter() {
                    for off in [0, pre.saturating_sub(1), pre, pre + 1, pre + n / 2, pre + n - 1, pre + n, pre + n + 1, total.saturating_sub(1), total] {
                        let r = call_ctx(rule, &s, off);
                        note(json!([rule, off as u64]), &r);
                        calls += 1;
                    }
                }
            }
            let _ = f.write_at(&0u64.to_le_bytes(), 0);
            let p = panics.lock().unwrap();
            println!("{}", json!({"deep": {"calls": calls, "panics": p.clone()}}));
        })
        .unwrap_or_else(|e| tool_error(&e.to_string()));
    h.join().unwrap_or_else(|_| tool_error("deep thread died"));
}

/// returns (calls, cases, reported problems)
fn deep_parent(scratch: &str) -> (u64, usize, Vec<Value>) {
    std::fs::create_dir_all(scratch).ok();
    let progress = format!("{}/deep-progress", scratch);
    let exe = std::env::current_exe().unwrap_or_else(|e| tool_error(&e.to_string()));
    let cases = deep_cases();
    let mut from = 0usize;
    let mut calls = 0u64;
    let mut problems = Vec::new();
    while from < cases.len() && problems.len() < 3 {
        std::fs::remove_file(&progress).ok();
        let out = std::process::Command::new(&exe)
            .args(["c01sweep", "--deep-child", "--progress", &progress, "--from", &from.to_string()])
            .output()
            .unwrap_or_else(|e| tool_error(&e.to_string()));
        let text = String::from_utf8_lossy(&out.stdout).to_string();
        if out.status.success() {
            let last = text.split('\n').filter(|l| !l.is_empty()).last().unwrap_or("");
            let v: Value = serde_json::from_str(last).unwrap_or_else(|_| tool_error("deep child output"));
            calls += v["deep"]["calls"].as_u64().unwrap_or(0);
            for p in v["deep"]["panics"].as_array().cloned().unwrap_or_default() {
                problems.push(p);
            }
            break;
        }
        if out.status.code() == Some(2) {
            tool_error(&format!("deep child: {}", String::from_utf8_lossy(&out.stderr)));
        }
        // killed (stack overflow -> SIGABRT / SIGSEGV): which case was it executing?
        let idx = std::fs::read(&progress).ok().filter(|b| b.len() >= 8).map(|b| u64::from_le_bytes([b[0], b[1], b[2], b[3], b[4], b[5], b[6], b[7]]) as usize).unwrap_or(0);
        if idx == 0 {
            tool_error(&format!("deep child died without a progress record: {:?} {}", out.status, String::from_utf8_lossy(&out.stderr)));
        }
        let case = cases[idx - 1];
        let err = String::from_utf8_lossy(&out.stderr).to_string();
        problems.push(json!({"op": "one of the public operations (the process was taken down, the call did not return)",
                             "deep_case": {"filler": DEEP_FILLERS[case.0].0, "before": string_to_cps(DEEP_FRAMES[case.1].0), "after": string_to_cps(DEEP_FRAMES[case.1].1),
                                           "run_length": deep_string(case).2, "thread_stack_bytes": 192 * 1024},
                             "res": {"panic": format!("process died: {:?}; {}", out.status, err.trim().chars().rev().take(160).collect::<String>().chars().rev().collect::<String>())}}));
        from = idx;
    }
    std::fs::remove_file(&progress).ok();
    (calls, cases.len(), problems)
}

pub fn main(args: &[String]) {
    if args.iter().any(|a| a == "--deep-child") {
        return deep_child(args);
    }
    silence_panics();
    let db = arg_value(args, "--oracle").unwrap_or_else(|| tool_error("--oracle"));
    let max_len = arg_u64(args, "--max-len", 4) as usize;
    let n_random = arg_u64(args, "--random", 20000);
    let seed = arg_u64(args, "--seed", 1);
    let threads = arg_u64(args, "--threads", 12) as usize;
    let o = Oracle::load(&db);
    let pools = Arc::new(Pools::new(&o));
    let panics = Arc::new(Mutex::new(Vec::new()));
    // exhaustive part: strings are numbered in base |ALPHABET| per length
    let k = ALPHABET.len() as u64;
    let mut total: u64 = 0;
    for l in 0..=max_len {
        total += k.pow(l as u32);
    }
    let mut hs = Vec::new();
    for t in 0..threads {
        let panics = panics.clone();
        let pools = pools.clone();
        hs.push(std::thread::spawn(move || {
            silence_panics();
            let mut calls = 0u64;
            let mut strings = 0u64;
            let mut idx = t as u64;
            while idx < total {
                // decode idx into (length, digits)
                let mut rem = idx;
                let mut l = 0usize;
                loop {
                    let c = k.pow(l as u32);
                    if rem < c {
                        break;
                    }
                    rem -= c;
                    l += 1;
                }
                let mut s = String::new();
                for _ in 0..l {
                    s.push(char::from_u32(ALPHABET[(rem % k) as usize]).unwrap());
                    rem /= k;
                }
                calls += all_ops(&s, &panics);
                strings += 1;
                idx += threads as u64;
            }
            // runs of consecutive code points (all digits of a script, a stretch of an alphabet, ...), alone and
            // followed by a few characters that make contextual rules hold
            let starts: [u32; 22] = [0x30, 0x41, 0x61, 0x660, 0x6f0, 0x966, 0x9e6, 0xe50, 0x5d0, 0x621, 0x3b1, 0x3041, 0x30a1, 0x30f5, 0x4e00,
                                     0xff10, 0xff21, 0x1d7ce, 0x10400, 0x2000, 0x200b, 0xb0];
            let tails: [&str; 6] = ["", "\u{30fb}\u{30ab}", "\u{65e5}\u{30fb}", "l\u{b7}l", "\u{915}\u{94d}\u{200d}", "\u{5d0}"];
            let mut ri = t;
            while ri < starts.len() * 12 * tails.len() {
                let st = starts[ri % starts.len()];
                let n = 5 + (ri / starts.len()) % 12;
                let tail = tails[(ri / (starts.len() * 12)) % tails.len()];
                let mut s: String = (0..n as u32).filter_map(|k| char::from_u32(st + k)).collect();
                s.push_str(tail);
                calls += all_ops(&s, &panics);
                let rev: String = tail.chars().chain(s[..s.len() - tail.len()].chars()).collect();
                calls += all_ops(&rev, &panics);
                strings += 2;
                ri += threads;
            }
            // random part
            let mut rng = Rng::new(seed * 1000 + t as u64);
            let mut i = t as u64;
            while i < n_random {
                let s = if rng.chance(1, 2) {
                    pools.string(&mut rng, 64)
                } else {
                    // arbitrary scalar values from all planes
                    let len = rng.below(65);
                    (0..len).filter_map(|_| char::from_u32(rng.below(0x110000) as u32)).collect()
                };
                calls += all_ops(&s, &panics);
                strings += 1;
                i += threads as u64;
            }
            (strings, calls)
        }));
    }
    let mut strings = 0u64;
    let mut calls = 0u64;
    for h in hs {
        let (s, c) = h.join().unwrap_or_else(|_| tool_error("c01 worker died"));
        strings += s;
        calls += c;
    }
    // classification at extreme values
    let mut cls_calls = 0u64;
    for cp in [0u32, 0xD7FF, 0xD800, 0xDFFF, 0xE000, 0x10FFFF, 0x110000, 0x7FFF_FFFF, 0x8000_0000, u32::MAX - 1, u32::MAX] {
        for cls in ["Id", "Ff"] {
            if class_value_g(cls, cp) == "PANIC" {
                panics.lock().unwrap().push(json!({"op": [cls, "get_value_from_codepoint"], "cp": cp}));
            }
            cls_calls += 1;
        }
        let _ = guarded(|| json!(registered_rule(cp)));
    }
    let mut deep = json!({"checked": false});
    if let Some(scratch) = arg_value(args, "--scratch") {
        let (c, n, problems) = deep_parent(&scratch);
        deep = json!({"checked": true, "cases": n, "calls": c, "problems": problems.len(), "run_lengths": [6144, 16384], "thread_stack_bytes": 192 * 1024});
        for x in problems {
            panics.lock().unwrap().push(x);
        }
    }
    let p = panics.lock().unwrap();
    for x in p.iter() {
        println!("{}", json!({ "panic": x }));
    }
    println!("{}", json!({"summary": {"strings": strings, "exhaustive_strings": total, "calls": calls + cls_calls, "panics": p.len(), "alphabet": ALPHABET, "max_len": max_len, "deep": deep}}));
}
