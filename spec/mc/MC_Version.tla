---------------------------- MODULE MC_Version ----------------------------
(***************************************************************************)
(* Every text over a small alphabet (digits, the dot, a letter, a line     *)
(* feed) up to MaxLen characters, built one character at a time; each is   *)
(* emitted with the model's reading for replay into UnicodeVersionGen.     *)
(***************************************************************************)
EXTENDS Version, Json, TLC

CONSTANTS MaxLen
Alphabet == {"1", "0", "7", ".", "x", "\n"}

VARIABLES s
Init == s = <<>>
Next == \E c \in Alphabet : Len(s) < MaxLen /\ s' = Append(s, c)
Spec == Init /\ [][Next]_s

Laws == WellFormedReadsBack(s) /\ TooShortIsError(s)
\* vacuity guards (expected to be VIOLATED when asked for: both outcomes and a digit-as-separator reading are reachable)
NoOk == "err" \in DOMAIN GetVersion(s)
NoDigitSeparator == (Matches(s) # {}) => LET m == TheMatch(s) IN ~IsDigit(s[m[1] + m[2]])
Emit == PrintT(<<"REPLAY", ToJson([k |-> "version", text |-> s, res |-> GetVersion(s)])>>)
=============================================================================
