//! The oracle database written by lib/ucd.py from the pinned UCD copies (never from /repo),
//! expanded to per-code-point arrays.

use serde_json::{json, Value};
use std::collections::HashMap;

pub const N: usize = 0x110000;

pub struct Oracle {
    pub sig_bits: Vec<String>,
    pub bidi_classes: Vec<String>,
    pub exc: HashMap<u32, String>,
    pub sig: Vec<u16>,
    pub idp_names: Vec<String>,
    pub idp: Vec<u8>,
    pub virama: Vec<bool>,
    pub script_names: Vec<String>,
    pub script: Vec<u8>,
    pub jt: Vec<u8>,
    pub zs: Vec<bool>,
    pub wm: HashMap<u32, u32>,
    pub bidi: Vec<u8>,
    pub assigned16: Vec<bool>,
    pub lower16: HashMap<u32, Vec<u32>>,
    pub lt63: Vec<bool>,
}

fn runs(v: &Value) -> Vec<(usize, usize, Value)> {
    v.as_array()
        .expect("runs")
        .iter()
        .map(|r| {
            (
                r[0].as_u64().unwrap() as usize,
                r[1].as_u64().unwrap() as usize,
                r[2].clone(),
            )
        })
        .collect()
}

fn intern(names: &mut Vec<String>, s: &str) -> u8 {
    if let Some(i) = names.iter().position(|n| n == s) {
        i as u8
    } else {
        names.push(s.to_string());
        (names.len() - 1) as u8
    }
}

impl Oracle {
    pub fn load(path: &str) -> Oracle {
        let text = std::fs::read_to_string(path).unwrap_or_else(|e| crate::util::tool_error(&format!("oracle db {}: {}", path, e)));
        let db: Value = serde_json::from_str(&text).unwrap_or_else(|e| crate::util::tool_error(&format!("oracle db: {}", e)));
        let mut o = Oracle {
            sig_bits: db["sig_bits"].as_array().unwrap().iter().map(|x| x.as_str().unwrap().to_string()).collect(),
            bidi_classes: db["bidi_classes"].as_array().unwrap().iter().map(|x| x.as_str().unwrap().to_string()).collect(),
            exc: HashMap::new(),
            sig: vec![0; N],
            idp_names: Vec::new(),
            idp: vec![0; N],
            virama: vec![false; N],
            script_names: vec!["".to_string()],
            script: vec![0; N],
            jt: vec![b'U'; N],
            zs: vec![false; N],
            wm: HashMap::new(),
            bidi: vec![0; N],
            assigned16: vec![false; N],
            lower16: HashMap::new(),
            lt63: vec![false; N],
        };
        let l_idx = o.bidi_classes.iter().position(|c| c == "L").unwrap() as u8;
        for b in o.bidi.iter_mut() {
            *b = l_idx;
        }
        for (lo, hi, v) in runs(&db["exc"]) {
            for cp in lo..=hi {
                o.exc.insert(cp as u32, v.as_str().unwrap().to_string());
            }
        }
        for (lo, hi, v) in runs(&db["sig"]) {
            let x = v.as_u64().unwrap() as u16;
            for cp in lo..=hi {
                o.sig[cp] = x;
            }
        }
        for (lo, hi, v) in runs(&db["idp"]) {
            let i = intern(&mut o.idp_names, v.as_str().unwrap());
            for cp in lo..=hi {
                o.idp[cp] = i;
            }
        }
        for (lo, hi, _) in runs(&db["virama"]) {
            for cp in lo..=hi {
                o.virama[cp] = true;
            }
        }
        for (lo, hi, v) in runs(&db["script"]) {
            let i = intern(&mut o.script_names, v.as_str().unwrap());
            for cp in lo..=hi {
                o.script[cp] = i;
            }
        }
        for (lo, hi, v) in runs(&db["jt"]) {
            let c = v.as_str().unwrap().as_bytes()[0];
            for cp in lo..=hi {
                o.jt[cp] = c;
            }
        }
        for (lo, hi, _) in runs(&db["zs"]) {
            for cp in lo..=hi {
                o.zs[cp] = true;
            }
        }
        for e in db["wm"].as_array().unwrap() {
            o.wm.insert(e[0].as_u64().unwrap() as u32, e[1].as_u64().unwrap() as u32);
        }
        for (lo, hi, v) in runs(&db["bidi"]) {
            let i = o.bidi_classes.iter().position(|c| c == v.as_str().unwrap()).expect("bidi class") as u8;
            for cp in lo..=hi {
                o.bidi[cp] = i;
            }
        }
        for (lo, hi, _) in runs(&db["assigned16"]) {
            for cp in lo..=hi {
                o.assigned16[cp] = true;
            }
        }
        for e in db["lower16"].as_array().unwrap() {
            o.lower16.insert(
                e[0].as_u64().unwrap() as u32,
                e[1].as_array().unwrap().iter().map(|x| x.as_u64().unwrap() as u32).collect(),
            );
        }
        for (lo, hi, _) in runs(&db["gc63_lt"]) {
            for cp in lo..=hi {
                o.lt63[cp] = true;
            }
        }
        o
    }

    pub fn idp_of(&self, cp: u32) -> &str {
        if (cp as usize) < N {
            &self.idp_names[self.idp[cp as usize] as usize]
        } else {
            "DISALLOWED"
        }
    }
    pub fn bidi_of(&self, cp: u32) -> &str {
        &self.bidi_classes[self.bidi[cp as usize] as usize]
    }
    pub fn script_of(&self, cp: u32) -> &str {
        &self.script_names[self.script[cp as usize] as usize]
    }
    pub fn jt_of(&self, cp: u32) -> String {
        (self.jt[cp as usize] as char).to_string()
    }
    pub fn wm_of(&self, cp: u32) -> i64 {
        self.wm.get(&cp).map(|x| *x as i64).unwrap_or(-1)
    }
    /// category names of the signature
    pub fn cats_of(&self, cp: u32) -> Vec<&str> {
        let bits = if (cp as usize) < N { self.sig[cp as usize] } else { 0 };
        let mut v = Vec::new();
        for (i, n) in self.sig_bits.iter().enumerate() {
            if bits & (1 << i) != 0 {
                v.push(n.as_str());
            }
        }
        v
    }
    pub fn exc_of(&self, cp: u32) -> &str {
        self.exc.get(&cp).map(|s| s.as_str()).unwrap_or("")
    }

    /// reference lowercase: std called directly (the mapping README documents)
    pub fn std_lower(c: char) -> Vec<u32> {
        c.to_lowercase().map(|x| x as u32).collect()
    }

    /// the attribute record of one code point for a trace `tbl` / a generated universe
    pub fn attrs(&self, cp: u32) -> Value {
        let c = char::from_u32(cp).expect("scalar value");
        json!({
            "cp": cp,
            "idp": self.idp_of(cp),
            "vir": self.virama[cp as usize],
            "jt": self.jt_of(cp),
            "sc": self.script_of(cp),
            "zs": self.zs[cp as usize],
            "wm": self.wm_of(cp),
            "lower": Oracle::std_lower(c),
            "bidi": self.bidi_of(cp),
        })
    }
}
