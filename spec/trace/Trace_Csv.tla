------------------------------ MODULE Trace_Csv ------------------------------
(***************************************************************************)
(* C17, layer L3: registry rows (well-formed and corrupted) written by a   *)
(* randomized driver and read back through the real parser; every recorded *)
(* outcome must be the one Csv.tla's ParseRow gives for the row's tokens.  *)
(* e.hex carries the value of every VALID hexadecimal token of the row.    *)
(***************************************************************************)
EXTENDS Csv, Json, IOUtils

Rec == ndJsonDeserialize(IOEnv.TRACE)
VARIABLES l, bad
vars == <<l, bad>>

ToSet(t) == {t[i] : i \in DOMAIN t}
HexOf(e) == LET T == ToSet(e.hex) IN [tok \in {h.tok : h \in T} |-> (CHOOSE h \in T : h.tok = tok).val]

\* the recorded result is [st |-> "ok", cps, props, descok] or [st |-> "err"] or [st |-> "panic"]
Explained(e) ==
  LET x == ParseRow(HexOf(e), e.toks, e.term) IN
  IF x = PErr THEN e.res.st = "err"
  ELSE /\ e.res.st = "ok"
       /\ e.res.cps = x.cps
       /\ e.res.props = x.props
       /\ e.res.descok       \* description = text after the second comma, terminator included

Init == l = 1 /\ bad = <<>>
Step == /\ l <= Len(Rec)
        /\ bad' = IF Explained(Rec[l]) THEN bad ELSE Append(bad, l)
        /\ l' = l + 1
Spec == Init /\ [][Step]_vars
Accepted == TLCGet("stats").diameter = Len(Rec) + 1
Report == (l = Len(Rec) + 1) => PrintT(<<"BAD", ToJson(bad)>>)
=============================================================================
