---------------------------- MODULE MC_Stabilize ----------------------------
(***************************************************************************)
(* C13: every rule function on |D| states (and two error values), every    *)
(* start (start fixed to one element: the model is symmetric under         *)
(* permutations of D).  The loop inspects an orbit prefix of at most five  *)
(* elements, so |D| = 5 exhibits every behaviour: converging after 0..3    *)
(* steps, cycling, still changing after the fourth application, failing    *)
(* at any application with either error.                                   *)
(***************************************************************************)
EXTENDS Stabilize, TLC, Json

CONSTANT NStates
MCD == 1..NStates

View == <<f, s0, c, n, res>>

Emit == Done => PrintT(<<"REPLAY", ToJson([k |-> "stab", n |-> NStates, f |-> [d \in MCD |-> f[d]], s |-> s0,
                                           calls |-> calls, res |-> res])>>)
=============================================================================
