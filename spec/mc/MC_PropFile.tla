---------------------------- MODULE MC_PropFile ----------------------------
(***************************************************************************)
(* C15 for the property-file generators (Scripts, DerivedJoiningType,      *)
(* PropList, DerivedCoreProperties, HangulSyllableType through             *)
(* UnicodeGen<T> + UcdTableGen): an input is a sequence of lines           *)
(* "lo..hi ; Value" in ANY order (real Scripts.txt is grouped by script,   *)
(* not sorted by code point), pairwise disjoint.  Each table generator     *)
(* collects the code points of its own value into a set; the emitted       *)
(* table is the sorted, run-merged set.                                    *)
(***************************************************************************)
EXTENDS TableGen, Json

CONSTANTS M, MaxLines
U == 0..(M - 1)
Vals == {"Greek", "Hebrew"}            \* two tracked values; "Latin" is present in the file but not tracked
AllVals == Vals \cup {"Latin"}

VARIABLES lines, covered, g1, g2
vars == <<lines, covered, g1, g2>>

Init == lines = <<>> /\ covered = {} /\ g1 = SetInit /\ g2 = SetInit

AddLine(lo, hi, v) ==
  /\ Len(lines) < MaxLines /\ lo <= hi
  /\ (lo..hi) \cap covered = {}                       \* well-formed: no code point listed twice
  /\ lines' = Append(lines, [lo |-> lo, hi |-> hi, v |-> v])
  /\ covered' = covered \cup (lo..hi)
  /\ g1' = SetStep(g1, [lo |-> lo, hi |-> hi, v |-> v], v = "Greek")
  /\ g2' = SetStep(g2, [lo |-> lo, hi |-> hi, v |-> v], v = "Hebrew")
Next == \E lo \in U, hi \in U, v \in AllVals : AddLine(lo, hi, v)
Spec == Init /\ [][Next]_vars

Assigned(v) == UNION {lines[i].lo..lines[i].hi : i \in {j \in 1..Len(lines) : lines[j].v = v}}
T1 == SetTable(g1.set)
T2 == SetTable(g2.set)

Faithful == /\ g1.err = "" /\ g2.err = ""
            /\ DenoteSet(T1, U) = Assigned("Greek") /\ Sorted(T1) /\ Searchable(T1, U)
            /\ DenoteSet(T2, U) = Assigned("Hebrew") /\ Sorted(T2) /\ Searchable(T2, U)
            /\ DenoteSet(T1, U) \cap DenoteSet(T2, U) = {}
\* adjacent runs are merged: no two consecutive entries touch
Merged == \A i \in 1..(Len(T1) - 1) : Hi(T1[i]) + 1 < Lo(T1[i + 1])

Den(t) == [cp \in U |-> \E i \in 1..Len(t) : Contains(t[i], cp)]
Emit == PrintT(<<"REPLAY", ToJson([k |-> "prop", m |-> M, lines |-> lines, greek |-> Den(T1), hebrew |-> Den(T2)])>>)
=============================================================================
