------------------------------ MODULE Profiles ------------------------------
(***************************************************************************)
(* The four profiles of RFC 8265 / RFC 8266 as pipelines of named steps    *)
(* (precis-profiles/src/{usernames,passwords,nicknames}.rs) and the        *)
(* bounded stabilize loop (precis-core/src/profile.rs:175-195).            *)
(*                                                                         *)
(* Pipelines are DATA: a change of order, a dropped or a duplicated step   *)
(* in the code has a one-line counterpart here.                            *)
(***************************************************************************)
EXTENDS Base, StringClass, Normalization, Mappings, Bidi

ProfileNames == {"UCM", "UCP", "OPQ", "NICK"}
\* UsernameCaseMapped, UsernameCasePreserved, OpaqueString, Nickname

PrepareSteps(p) ==
  CASE p = "UCM"  -> <<"width", "nonempty", "allowsId">>
    [] p = "UCP"  -> <<"width", "nonempty", "allowsId">>
    [] p = "OPQ"  -> <<"nonempty", "allowsFf">>
    [] p = "NICK" -> <<"nonempty", "allowsFf">>

\* for NICK these are the steps of ONE application of the rules
EnforceSteps(p) ==
  CASE p = "UCM"  -> PrepareSteps(p) \o <<"lower", "nfc", "nonempty", "bidi">>
    [] p = "UCP"  -> PrepareSteps(p) \o <<"nfc", "nonempty", "bidi">>
    [] p = "OPQ"  -> PrepareSteps(p) \o <<"pwspace", "nfc", "nonempty">>
    [] p = "NICK" -> PrepareSteps(p) \o <<"nickspace", "nfkc", "nonempty">>

\* the rules applied to each side of a comparison (Nickname only differs)
CompareSteps(p) ==
  IF p = "NICK" THEN PrepareSteps(p) \o <<"nickspace", "lower", "nfkc">> ELSE EnforceSteps(p)

Iterated(p) == p = "NICK"       \* the rules are applied until the string is stable
MaxApps == 4                     \* first application plus three re-applications (RFC 8264 section 7)

\* one named step: a string to a result
ApplyStep(W, name, s) ==
  CASE name = "width"     -> Ok(WidthMap(W, s))
    [] name = "nonempty"  -> IF s = <<>> THEN ErrInvalid ELSE Ok(s)
    [] name = "allowsId"  -> LET r == Allows(W, "Id", s) IN IF r = OkUnit THEN Ok(s) ELSE r
    [] name = "allowsFf"  -> LET r == Allows(W, "Ff", s) IN IF r = OkUnit THEN Ok(s) ELSE r
    [] name = "lower"     -> Ok(CaseMap(W, s))
    [] name = "nfc"       -> IF W.mode = "facts" /\ ~HasFact(W, s) THEN [err |-> "MissingFact"] ELSE Ok(NFC(W, s))
    [] name = "nfkc"      -> IF W.mode = "facts" /\ ~HasFact(W, s) THEN [err |-> "MissingFact"] ELSE Ok(NFKC(W, s))
    [] name = "pwspace"   -> Ok(PwSpaces(W, s))
    [] name = "nickspace" -> Ok(NickSpaces(W, s))
    [] name = "bidi"      -> IF DirectionalityOk(W, s) THEN Ok(s) ELSE ErrInvalid

\* run steps k.. of a pipeline on s; the first failure is the result
RECURSIVE RunFrom2(_, _, _, _)
RunFrom2(W, pipe, k, s) ==
  IF k > Len(pipe) THEN Ok(s)
  ELSE LET r == ApplyStep(W, pipe[k], s) IN IF IsErr(r) THEN r ELSE RunFrom2(W, pipe, k + 1, r.ok)
RunPipe(W, pipe, s) == RunFrom2(W, pipe, 1, s)

\* stabilize(s, f) for f = RunPipe(pipe, .): n counts applications made so far
RECURSIVE StabFrom(_, _, _, _, _)
StabFrom(W, pipe, c, n, max) ==
  IF n = max THEN ErrInvalid
  ELSE LET r == RunPipe(W, pipe, c) IN
       IF IsErr(r) THEN r
       ELSE IF r.ok = c THEN Ok(c)
       ELSE StabFrom(W, pipe, r.ok, n + 1, max)
StabilizePipe(W, pipe, s) == StabFrom(W, pipe, s, 0, MaxApps)

Prepare(W, p, s) == RunPipe(W, PrepareSteps(p), s)
Enforce(W, p, s) == IF Iterated(p) THEN StabilizePipe(W, EnforceSteps(p), s) ELSE RunPipe(W, EnforceSteps(p), s)
\* comparison form of one side
CompForm(W, p, s) == IF Iterated(p) THEN StabilizePipe(W, CompareSteps(p), s) ELSE RunPipe(W, CompareSteps(p), s)
Compare(W, p, a, b) ==
  LET ra == CompForm(W, p, a) IN
  IF IsErr(ra) THEN ra
  ELSE LET rb == CompForm(W, p, b) IN IF IsErr(rb) THEN rb ELSE OkEq(ra.ok = rb.ok)

\* ---- the Rules trait: which rule a profile defines, and as what --------------
RuleStep(p, rule) ==
  CASE rule = "width_mapping_rule"      -> IF p \in {"UCM", "UCP"} THEN "width" ELSE ""
    [] rule = "additional_mapping_rule" -> IF p = "OPQ" THEN "pwspace" ELSE IF p = "NICK" THEN "nickspace" ELSE ""
    [] rule = "case_mapping_rule"       -> IF p \in {"UCM", "NICK"} THEN "lower" ELSE ""
    [] rule = "normalization_rule"      -> IF p = "NICK" THEN "nfkc" ELSE "nfc"
    [] rule = "directionality_rule"     -> IF p \in {"UCM", "UCP"} THEN "bidi" ELSE ""
RuleNamesP == {"width_mapping_rule", "additional_mapping_rule", "case_mapping_rule",
               "normalization_rule", "directionality_rule"}
RuleCall(W, p, rule, s) == IF RuleStep(p, rule) = "" THEN ErrNoRule ELSE ApplyStep(W, RuleStep(p, rule), s)

\* ---- the meaning of a public call ----------------------------------------------
Sem(W, p, op, args) ==
  CASE op = "prepare" -> Prepare(W, p, args[1])
    [] op = "enforce" -> Enforce(W, p, args[1])
    [] op = "compare" -> Compare(W, p, args[1], args[2])
    [] op \in RuleNamesP -> RuleCall(W, p, op, args[1])

\* ---- a law of the pipelines: powers of a unit string ---------------------------------
\* Used to extend the binding to strings far longer than a model string (buffer sizes, block-wise
\* scans): TLC checks the law on the model for every short string; the harness then holds the real
\* code to it for u^n up to 64 KiB, the result for u itself being judged by the model.
\* A character is INERT when every class accepts it and no step can change it, join it with its predecessor or look
\* across it (a following mark may still compose with it: that happens inside the unit).
Inert(W, c) == LET a == W.u[c] IN
  /\ a.ccc = 0 /\ a.cdec = <<c>> /\ a.kdec = <<c>> /\ a.lower = <<c>> /\ a.wm = -1 /\ ~a.zs
  /\ a.jt # "T" /\ a.bidi # "NSM" /\ a.idp = "PVALID"
  /\ \A pr \in DOMAIN W.comp : pr[2] # c
UnitString(W, s) == s # <<>> /\ Inert(W, s[1]) /\ Inert(W, s[Len(s)])
Power(s, n) == Flat([i \in 1..n |-> s])
PowerResult(r, n) == IF IsOk(r) THEN Ok(Power(r.ok, n)) ELSE r
PowerLaw(W, p, op, s, n) ==
  UnitString(W, s) => Sem(W, p, op, <<Power(s, n)>>) = PowerResult(Sem(W, p, op, <<s>>), n)

\* padding: i copies of the (inert) head in front, j copies of the (inert) tail behind.  First and last character,
\* the set of characters and every local context stay what they were; a reported position moves by i.
\* Unlike a power, a padded string is not periodic: the part that matters sits at an arbitrary offset.
Pad(s, i, j) == [x \in 1..i |-> s[1]] \o s \o [x \in 1..j |-> s[Len(s)]]
PadResult(r, s, i, j) == IF IsOk(r) THEN Ok([x \in 1..i |-> s[1]] \o r.ok \o [x \in 1..j |-> s[Len(s)]])
                         ELSE IF "pos" \in DOMAIN r THEN [r EXCEPT !.pos = @ + i] ELSE r
PadLaw(W, p, op, s, i, j) ==
  UnitString(W, s) => Sem(W, p, op, <<Pad(s, i, j)>>) = PadResult(Sem(W, p, op, <<s>>), s, i, j)

\* the string class a profile validates with
ClassOf(p) == IF p \in {"UCM", "UCP"} THEN "Id" ELSE "Ff"
=============================================================================
