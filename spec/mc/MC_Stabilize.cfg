SPECIFICATION Spec
CONSTANTS
  NStates = 4
  D <- MCD
  E1 = E1
  E2 = E2
  MaxApps = 4
  Starts = {1}
INVARIANT Contract
INVARIANT Emit
PROPERTY Terminates
VIEW View
CHECK_DEADLOCK FALSE
