"""Shared machinery of the checks: paths, repository hash, harness build, TLC runner,
evidence files, VIOLATION / KNOWN-FINDING / TOOL-ERROR reporting."""
import fcntl
import hashlib
import json
import os
import re
import shutil
import subprocess
import sys
import time

VERIF = os.path.dirname(os.path.dirname(os.path.abspath(__file__)))
CACHE = os.path.join(VERIF, ".cache")
SPEC = os.path.join(VERIF, "spec")
REPO = os.environ.get("PRECIS_REPO", "/repo")
TLA_CP = "/opt/veriftools/tla/tla2tools.jar:/opt/veriftools/tla/CommunityModules-deps.jar"


class ToolError(Exception):
    pass


def tool_error(msg):
    print("TOOL-ERROR %s" % msg, flush=True)
    sys.exit(2)


def log(msg):
    print("[check] %s" % msg, flush=True)


def nl_lines(text):
    """split on LF only (str.splitlines also splits on U+2028, U+0085, ... which may occur inside JSON strings)"""
    return [l for l in text.split("\n") if l]


def sh(cmd, **kw):
    return subprocess.run(cmd, stdout=subprocess.PIPE, stderr=subprocess.STDOUT, text=True, **kw)


# --------------------------------------------------------------------------- locks / cache
class Lock:
    def __init__(self, name):
        os.makedirs(CACHE, exist_ok=True)
        self.path = os.path.join(CACHE, name + ".lock")

    def __enter__(self):
        self.f = open(self.path, "w")
        fcntl.flock(self.f, fcntl.LOCK_EX)
        return self

    def __exit__(self, *a):
        fcntl.flock(self.f, fcntl.LOCK_UN)
        self.f.close()


def sha_file(path, h=None):
    h = h or hashlib.sha256()
    with open(path, "rb") as f:
        while True:
            b = f.read(1 << 20)
            if not b:
                break
            h.update(b)
    return h


def tree_hash(root, subdirs=None, skip=("target", ".git")):
    """content hash of a directory tree (paths + bytes)"""
    h = hashlib.sha256()
    roots = [os.path.join(root, s) for s in subdirs] if subdirs else [root]
    for r in roots:
        if os.path.isfile(r):
            h.update(r.encode())
            sha_file(r, h)
            continue
        for dp, dns, fns in os.walk(r):
            dns[:] = sorted(d for d in dns if d not in skip)
            for fn in sorted(fns):
                p = os.path.join(dp, fn)
                if os.path.islink(p) or not os.path.isfile(p):
                    continue
                h.update(os.path.relpath(p, root).encode())
                sha_file(p, h)
    return h.hexdigest()[:20]


_repo_hash = None


def repo_hash():
    global _repo_hash
    if _repo_hash is None:
        _repo_hash = tree_hash(REPO)
    return _repo_hash


def framework_hash():
    return tree_hash(VERIF, subdirs=["lib", "spec", "harness/src", "harness/Cargo.toml", "data/SHA256SUMS"])


def prune_cache(prefix, keep=4):
    try:
        ents = sorted((e for e in os.listdir(CACHE) if e.startswith(prefix)),
                      key=lambda e: os.path.getmtime(os.path.join(CACHE, e)))
    except FileNotFoundError:
        return
    for e in ents[:-keep]:
        p = os.path.join(CACHE, e)
        if os.path.isdir(p):
            shutil.rmtree(p, ignore_errors=True)
        else:
            try:
                os.remove(p)
            except OSError:
                pass


# --------------------------------------------------------------------------- oracle db
def ensure_oracle():
    """builds .cache/oracle.json from the pinned data (once per version of data + parser)"""
    os.makedirs(CACHE, exist_ok=True)
    key = tree_hash(VERIF, subdirs=["lib/ucd.py", "data/SHA256SUMS"])
    if os.environ.get("VERIF_DATA"):
        key = "perturbed-" + tree_hash(os.environ["VERIF_DATA"])
    path = os.path.join(CACHE, "oracle-%s.json" % key)
    with Lock("oracle"):
        if not os.path.exists(path):
            sys.path.insert(0, os.path.join(VERIF, "lib"))
            import ucd
            t = time.time()
            ucd.build_db(path)
            log("oracle database built in %.1fs" % (time.time() - t))
            prune_cache("oracle-", keep=2)
    return path


# --------------------------------------------------------------------------- harness build
def ensure_harness():
    """(re)builds the conformance harness against REPO's current working tree; returns the binary"""
    if not os.path.isdir(os.path.join(REPO, "precis-core")):
        tool_error("repository not found at %s" % REPO)
    with Lock("build"):
        if os.path.realpath(REPO) == "/repo":
            wdir = os.path.join(VERIF, "harness")
            target = os.path.join(CACHE, "target")
        else:
            tag = hashlib.sha256(os.path.realpath(REPO).encode()).hexdigest()[:10]
            wdir = os.path.join(CACHE, "hw-" + tag)
            target = os.path.join(CACHE, "target-" + tag)
            os.makedirs(os.path.join(wdir, ".cargo"), exist_ok=True)
            toml = open(os.path.join(VERIF, "harness", "Cargo.toml")).read().replace('"/repo/', '"%s/' % os.path.realpath(REPO))
            toml = toml.replace('path = "src/main.rs"', 'path = "%s"' % os.path.join(VERIF, "harness", "src", "main.rs"))
            with open(os.path.join(wdir, "Cargo.toml"), "w") as f:
                f.write(toml)
            shutil.copy(os.path.join(VERIF, "harness", "Cargo.lock"), os.path.join(wdir, "Cargo.lock"))
            with open(os.path.join(wdir, ".cargo", "config.toml"), "w") as f:
                f.write('[net]\noffline = true\n\n[build]\ntarget-dir = "%s"\n' % target)
        # The build scripts of precis-core / precis-profiles only declare rerun-if-changed=build.rs:
        # edited UCD resources would be missed.  Force them to re-run when the resources changed.
        res_hash = tree_hash(REPO, subdirs=["precis-core/resources", "precis-profiles/resources",
                                            "precis-core/build.rs", "precis-profiles/build.rs", "precis-tools/src"])
        stamp = os.path.join(target, "resources.stamp")
        old = open(stamp).read() if os.path.exists(stamp) else None
        env = dict(os.environ, CARGO_NET_OFFLINE="true")
        if old is not None and old != res_hash:
            sh(["cargo", "clean", "--release", "--offline", "-p", "precis-core", "-p", "precis-profiles", "-p", "precis-tools"], cwd=wdir, env=env)
        t = time.time()
        r = sh(["cargo", "build", "--release", "--offline"], cwd=wdir, env=env)
        if r.returncode != 0:
            print(r.stdout[-4000:])
            tool_error("harness build failed (the repository working tree does not compile?)")
        os.makedirs(target, exist_ok=True)
        with open(stamp, "w") as f:
            f.write(res_hash)
        if time.time() - t > 3:
            log("harness rebuilt in %.1fs" % (time.time() - t))
        return os.path.join(target, "release", "pvh")


def run_harness(args, stdin_path=None, timeout=3600, env=None):
    pvh = ensure_harness()
    t = time.time()
    e = dict(os.environ)
    if env:
        e.update(env)
    fin = open(stdin_path) if stdin_path else None
    try:
        r = subprocess.run([pvh] + args, stdin=fin, stdout=subprocess.PIPE, stderr=subprocess.PIPE, text=True, timeout=timeout, env=e)
    except subprocess.TimeoutExpired:
        tool_error("harness timeout: %s" % " ".join(args[:3]))
    finally:
        if fin:
            fin.close()
    if r.returncode != 0:
        sys.stdout.write(r.stdout[-2000:])
        sys.stdout.write(r.stderr[-2000:])
        tool_error("harness failed (%d): %s" % (r.returncode, " ".join(args[:3])))
    return r.stdout, time.time() - t


def run_harness_raw(args, timeout=3600, env=None):
    """like run_harness, but abnormal termination is returned, not raised: (rc, stdout, stderr, timed_out, wall)"""
    pvh = ensure_harness()
    t = time.time()
    e = dict(os.environ)
    if env:
        e.update(env)
    try:
        r = subprocess.run([pvh] + args, stdout=subprocess.PIPE, stderr=subprocess.PIPE, text=True, timeout=timeout, env=e)
    except subprocess.TimeoutExpired as ex:
        out = ex.stdout if isinstance(ex.stdout, str) else (ex.stdout or b"").decode("utf-8", "replace")
        return None, out, "", True, time.time() - t
    return r.returncode, r.stdout, r.stderr, False, time.time() - t


# --------------------------------------------------------------------------- TLC
class TlcResult:
    def __init__(self):
        self.out = ""
        self.generated = 0
        self.distinct = 0
        self.depth = 0
        self.printed = []     # parsed <<"TAG", ...>> tuples: (tag, payload string)
        self.error = None
        self.violated = None  # name of a violated invariant / property
        self.wall = 0.0
        self.coverage = {}


_PRINT_RE = re.compile(r'^<<"([A-Z0-9_]+)", (.*)>>$')


def _untla(s):
    """un-escape a TLA+ string literal body"""
    out = []
    i = 0
    while i < len(s):
        c = s[i]
        if c == "\\" and i + 1 < len(s):
            n = s[i + 1]
            out.append({"n": "\n", "t": "\t", "r": "\r", "f": "\f"}.get(n, n))
            i += 2
        else:
            out.append(c)
            i += 1
    return "".join(out)


def parse_printed(line):
    m = _PRINT_RE.match(line)
    if not m:
        return None
    tag, rest = m.group(1), m.group(2)
    if rest.startswith('"') and rest.endswith('"'):
        rest = _untla(rest[1:-1])
    return tag, rest


def run_tlc(module, cfg=None, modules_dir=None, extra_files=(), env=None, workers=1, timeout=1800,
            heap="4g", simulate=None, depth_first=False, coverage=False, line_cb=None, keep=False):
    """runs TLC on spec/<modules_dir>/<module>.tla in a scratch copy of the specification.

    line_cb(tag, payload) is called for every printed <<"TAG", payload>> tuple (streaming, so
    that millions of REPLAY lines need not be kept); otherwise they are collected in .printed"""
    res = TlcResult()
    # unique per call: batches are validated by several threads of one process at the same time
    import tempfile
    os.makedirs(CACHE, exist_ok=True)
    run_dir = tempfile.mkdtemp(prefix="tlc-%d-" % os.getpid(), dir=CACHE)
    try:
        for fn in os.listdir(SPEC):
            if fn.endswith(".tla"):
                shutil.copy(os.path.join(SPEC, fn), run_dir)
        src_dir = os.path.join(SPEC, modules_dir) if modules_dir else SPEC
        for fn in os.listdir(src_dir):
            if fn.endswith(".tla") or fn.endswith(".cfg"):
                shutil.copy(os.path.join(src_dir, fn), run_dir)
        for p in extra_files:
            shutil.copy(p, run_dir)
        cfg = cfg or (module + ".cfg")
        jopts = "-Xss1g"
        if depth_first:
            jopts += " -Dtlc2.tool.queue.IStateQueue=StateDeque"
        e = dict(os.environ)
        e["JAVA_TOOL_OPTIONS"] = jopts
        if env:
            e.update({k: str(v) for k, v in env.items()})
        e.setdefault("LANG", "C.UTF-8")
        e["LC_ALL"] = "C.UTF-8"
        # TLC leaves an empty tlc-<n> directory in java.io.tmpdir per run: keep it inside the scratch copy, which is removed
        jtmp = os.path.join(run_dir, "jtmp")
        os.makedirs(jtmp, exist_ok=True)
        cmd = ["timeout", str(timeout), "java", "-XX:+UseParallelGC", "-Xmx" + heap, "-Djava.io.tmpdir=" + jtmp, "-Dfile.encoding=UTF-8", "-Dstdout.encoding=UTF-8",
               "-Dsun.stdout.encoding=UTF-8", "-cp", TLA_CP, "tlc2.TLC",
               "-workers", str(workers), "-metadir", os.path.join(run_dir, "meta"), "-cleanup", "-noGenerateSpecTE",
               "-config", cfg]
        if simulate:
            cmd += ["-simulate", simulate]
        if coverage:
            cmd += ["-coverage", "1"]
        cmd += [module + ".tla"]
        t = time.time()
        p = subprocess.Popen(cmd, cwd=run_dir, env=e, stdout=subprocess.PIPE, stderr=subprocess.STDOUT, text=True, bufsize=1 << 20,
                             encoding="utf-8", errors="replace")
        tail = []
        pending = None   # TLC's pretty printer wraps very long tuples:  << "TAG",\n   "payload" >>
        for line in p.stdout:
            line = line.rstrip("\n")
            if pending is not None:
                pending.append(line.strip())
                if line.endswith(">>"):
                    joined = " ".join(pending)
                    pending = None
                    m2 = re.match(r'^<< "([A-Z0-9_]+)", (.*) >>$', joined)
                    if m2:
                        rest = m2.group(2)
                        if rest.startswith('"') and rest.endswith('"'):
                            rest = _untla(rest[1:-1])
                        if line_cb:
                            line_cb(m2.group(1), rest)
                        else:
                            res.printed.append((m2.group(1), rest))
                continue
            if re.match(r'^<< "[A-Z0-9_]+",$', line):
                pending = [line]
                continue
            if line.startswith("<<\""):
                pr = parse_printed(line)
                if pr:
                    if line_cb:
                        line_cb(pr[0], pr[1])
                    else:
                        res.printed.append(pr)
                    continue
            if not line or line.startswith(("Parsing file", "Semantic processing", "Linting of", "Picked up JAVA")):
                continue
            tail.append(line)
            if len(tail) > 400:
                del tail[:100]
            m = re.match(r"^([\d,]+) states generated, ([\d,]+) distinct states found", line)
            if m:
                res.generated = int(m.group(1).replace(",", ""))
                res.distinct = int(m.group(2).replace(",", ""))
            m = re.match(r"^The depth of the complete state graph search is (\d+)", line)
            if m:
                res.depth = int(m.group(1))
            m = re.match(r"^Error: Invariant (\S+) is violated", line)
            if m:
                res.violated = m.group(1)
            m = re.match(r"^Error: Action property (\S+) is violated", line)
            if m:
                res.violated = m.group(1)
            if line.startswith("Error:") and res.error is None and not res.violated:
                res.error = line
            m = re.match(r"^<(\w+) line \d+, col \d+ to line \d+, col \d+ of module (\w+)>: (\d+):(\d+)", line)
            if m:
                res.coverage[m.group(1)] = (int(m.group(3)), int(m.group(4)))
        rc = p.wait()
        res.wall = time.time() - t
        res.out = "\n".join(tail)
        res.rc = rc
        if rc == 124:
            res.error = "timeout after %ss" % timeout
        return res
    finally:
        if not keep:
            shutil.rmtree(run_dir, ignore_errors=True)


def run_tlapm(module_file, timeout=600):
    """checks the TLAPS proofs of spec/proofs/<module_file> in a scratch copy; returns the number of obligations proved"""
    run_dir = os.path.join(CACHE, "tlaps-%d-%d" % (os.getpid(), int(time.time() * 1000) % 10 ** 9))
    os.makedirs(run_dir, exist_ok=True)
    try:
        shutil.copy(os.path.join(SPEC, "proofs", module_file), run_dir)
        r = sh(["timeout", str(timeout), "tlapm", "--threads", "4", module_file], cwd=run_dir)
        m = re.search(r"All (\d+) obligations? proved", r.stdout)
        if r.returncode != 0 or not m:
            print(r.stdout[-2000:])
            tool_error("tlapm did not prove all obligations of %s" % module_file)
        return int(m.group(1))
    finally:
        shutil.rmtree(run_dir, ignore_errors=True)


def tlc_must_succeed(res, what):
    """a TLC run that is supposed to complete without finding anything"""
    if res.violated:
        return
    if res.error or res.rc not in (0,):
        print(res.out[-3000:])
        tool_error("TLC failed on %s: %s (rc=%s)" % (what, res.error, res.rc))


# --------------------------------------------------------------------------- evidence / verdicts
class Check:
    def __init__(self, prop, tier):
        self.prop = prop
        self.tier = tier
        self.seed = int(os.environ.get("VERIF_SEED", "1") or "1")
        self.t0 = time.time()
        self.cov = {"states": 0, "transitions": 0, "traces_validated_against_impl": 0, "evaluations": 0,
                    "distinct_nontrivial": 0, "rule": "", "samples": [], "parts": {}}
        self.assumptions = []
        self.violations = []     # (summary, replay object)
        self.known = {}          # finding id -> count
        self.notes = []

    # accumulate
    def add_tlc(self, name, res, extra=None):
        self.cov["states"] += res.distinct
        self.cov["transitions"] += res.generated
        d = {"distinct_states": res.distinct, "states_generated": res.generated, "depth": res.depth, "wall_s": round(res.wall, 1)}
        if extra:
            d.update(extra)
        self.cov["parts"][name] = d

    def add_part(self, name, d):
        self.cov["parts"][name] = d

    def sample(self, s, cap=12):
        if len(self.cov["samples"]) < cap:
            self.cov["samples"].append(s)

    def violation(self, summary, replay):
        self.violations.append((summary, replay))

    def known_finding(self, fid, n=1):
        self.known[fid] = self.known.get(fid, 0) + n

    def finish(self, level="model_checking"):
        os.makedirs(os.path.join(VERIF, "evidence"), exist_ok=True)
        os.makedirs(os.path.join(VERIF, "replays"), exist_ok=True)
        kf = load_known_findings()
        for fid, n in sorted(self.known.items()):
            ent = kf.get(fid, {})
            if self.prop not in ent.get("property", [self.prop]):
                # a listed defect of ANOTHER property met while exercising this one (e.g. the C08 finding in an enforce
                # trace of C04): it does not concern this property, it is neither a violation nor a finding of it
                self.notes.append("met %d case(s) of the known finding %s, which concerns %s, not this property" % (n, fid, "/".join(ent.get("property", []))))
                continue
            print("KNOWN-FINDING: property=%s %s [%s] (%d case(s) in this run)" % (self.prop, ent.get("what", fid), fid, n), flush=True)
        replay_paths = []
        for summary, replay in self.violations[:20]:
            blob = json.dumps(replay, sort_keys=True)
            name = "%s-%s.json" % (self.prop, hashlib.sha256(blob.encode()).hexdigest()[:12])
            path = os.path.join(VERIF, "replays", name)
            with open(path, "w") as f:
                json.dump({"property": self.prop, "summary": summary, "case": replay}, f, indent=1, sort_keys=True)
            replay_paths.append(path)
            print("VIOLATION property=%s replay=%s" % (self.prop, path), flush=True)
            print("  %s" % summary[:400], flush=True)
        cov = dict(self.cov)
        if not cov["samples"]:
            cov["samples"] = ["(no sample recorded)"]
        ev = {
            "property_id": self.prop,
            "tier": self.tier,
            "seed": self.seed,
            "level": level,
            "coverage": cov,
            "assumptions": self.assumptions,
            "wall_s": round(time.time() - self.t0, 1),
            "violations": len(self.violations),
            "known_findings": {k: v for k, v in self.known.items() if self.prop in kf.get(k, {}).get("property", [self.prop])},
            "notes": self.notes,
            "repo_hash": repo_hash(),
            "framework_hash": framework_hash(),
        }
        ev_dir = os.path.join(CACHE, "mutant-evidence") if os.environ.get("VERIF_NO_EVIDENCE") else os.path.join(VERIF, "evidence")
        os.makedirs(ev_dir, exist_ok=True)
        tmp = os.path.join(ev_dir, ".%s.tmp%d" % (self.prop, os.getpid()))
        with open(tmp, "w") as f:
            json.dump(ev, f, indent=1, sort_keys=True)
        os.replace(tmp, os.path.join(ev_dir, "%s.json" % self.prop))
        log("%s %s: %d violation(s), %d known finding(s), %.1fs" % (self.prop, self.tier, len(self.violations),
                                                                    len([k for k in self.known if self.prop in kf.get(k, {}).get("property", [self.prop])]), time.time() - self.t0))
        return 1 if self.violations else 0


_kf = None


def load_known_findings():
    global _kf
    if _kf is None:
        path = os.path.join(VERIF, "known_findings.json")
        _kf = {}
        if os.path.exists(path):
            for ent in json.load(open(path)).get("findings", []):
                if ent.get("status") == "known":
                    _kf[ent["id"]] = ent
    return _kf


def cached_json(name, builder):
    """cache a JSON-serialisable result in .cache/<name> (name must embed the relevant hashes)"""
    path = os.path.join(CACHE, name)
    with Lock("cj-" + name.split("-")[0]):
        if os.path.exists(path):
            try:
                return json.load(open(path))
            except Exception:
                pass
        val = builder()
        tmp = path + ".tmp%d" % os.getpid()
        with open(tmp, "w") as f:
            json.dump(val, f)
        os.replace(tmp, path)
        prune_cache(name.split("-")[0] + "-", keep=6)
        return val
