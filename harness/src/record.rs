//! Layer L3: drivers that call the real API on real Unicode strings and record one event
//! per call at its linearization point (the return of the public function, error path and
//! panics included), together with the oracle attributes (`tbl`) and the normalization
//! facts (`facts`) TLC needs to judge the event.  This module does not encode any profile
//! pipeline: the closure below is order-agnostic.

use crate::api::*;
use crate::oracle::{Oracle, N};
use crate::util::*;
use serde_json::{json, Value};
use std::collections::{BTreeSet, HashSet, VecDeque};
use std::io::Write;
use unicode_normalization::UnicodeNormalization;

// ---- primitive maps (independent of sancane/precis) -------------------------------------
fn p_width(o: &Oracle, s: &str) -> String {
    s.chars().map(|c| o.wm.get(&(c as u32)).and_then(|t| char::from_u32(*t)).unwrap_or(c)).collect()
}
fn p_lower(s: &str) -> String {
    s.chars().flat_map(|c| c.to_lowercase()).collect()
}
fn p_pwspace(o: &Oracle, s: &str) -> String {
    s.chars().map(|c| if c != ' ' && o.zs[c as usize] { ' ' } else { c }).collect()
}
fn p_nickspace(o: &Oracle, s: &str) -> String {
    let mapped: String = s.chars().map(|c| if o.zs[c as usize] { ' ' } else { c }).collect();
    mapped.split(' ').filter(|w| !w.is_empty()).collect::<Vec<_>>().join(" ")
}

pub const FACT_CAP: usize = 96;

/// closure of the arguments under the primitive maps; returns (facts, tbl, capped)
pub fn facts_for(o: &Oracle, args: &[String]) -> (Vec<Value>, Vec<Value>, bool) {
    let mut seen: HashSet<String> = HashSet::new();
    let mut queue: VecDeque<String> = VecDeque::new();
    for a in args {
        if seen.insert(a.clone()) {
            queue.push_back(a.clone());
        }
    }
    let mut facts = Vec::new();
    let mut chars: BTreeSet<u32> = BTreeSet::new();
    let mut capped = false;
    while let Some(s) = queue.pop_front() {
        let nfc: String = s.nfc().collect();
        let nfkc: String = s.nfkc().collect();
        for c in s.chars() {
            chars.insert(c as u32);
        }
        facts.push(json!({"x": string_to_cps(&s), "nfc": string_to_cps(&nfc), "nfkc": string_to_cps(&nfkc)}));
        if facts.len() >= FACT_CAP {
            capped = !queue.is_empty();
            break;
        }
        for t in [p_width(o, &s), p_lower(&s), p_pwspace(o, &s), p_nickspace(o, &s), nfc, nfkc] {
            if seen.insert(t.clone()) {
                queue.push_back(t);
            }
        }
    }
    chars.insert(0x20);
    let tbl: Vec<Value> = chars.iter().map(|c| o.attrs(*c)).collect();
    (facts, tbl, capped)
}

// ---- string pools --------------------------------------------------------------------
pub struct Pools {
    pub pools: Vec<(&'static str, u32, Vec<u32>)>, // (name, weight, members)
    total: u32,
}

impl Pools {
    pub fn new(o: &Oracle) -> Pools {
        let bit = |name: &str| -> u16 { 1 << o.sig_bits.iter().position(|b| b == name).unwrap() };
        let compat = bit("compat");
        let unas = bit("unas");
        let all = |pred: &dyn Fn(u32) -> bool| -> Vec<u32> {
            (0..N as u32).filter(|cp| !(0xD800..=0xDFFF).contains(cp) && pred(*cp)).collect()
        };
        let pvalid = |cp: u32| o.idp_of(cp) == "PVALID";
        let mut pools: Vec<(&'static str, u32, Vec<u32>)> = vec![
            ("ascii_lower", 14, (0x61..=0x7a).collect()),
            ("ascii_upper", 6, (0x41..=0x5a).collect()),
            ("ascii_digit", 4, (0x30..=0x39).collect()),
            ("ascii_punct", 4, (0x21..=0x2f).chain(0x3a..=0x40).collect()),
            ("space", 8, vec![0x20]),
            ("zs", 7, all(&|cp| o.zs[cp as usize] && cp != 0x20)),
            ("control", 1, (0..=0x1f).chain(0x7f..=0x9f).collect()),
            ("marks", 7, all(&|cp| pvalid(cp) && o.bidi_of(cp) == "NSM" && cp < 0x1100)),
            ("rtl_letters", 7, all(&|cp| pvalid(cp) && (o.bidi_of(cp) == "R" || o.bidi_of(cp) == "AL"))),
            ("an_en", 3, all(&|cp| o.assigned16[cp as usize] && (o.bidi_of(cp) == "AN" || (o.bidi_of(cp) == "EN" && cp > 0x80)))),
            ("contextual", 5, all(&|cp| o.idp_of(cp) == "CONTEXTJ" || o.idp_of(cp) == "CONTEXTO")),
            ("virama", 2, all(&|cp| o.virama[cp as usize])),
            ("joining", 3, all(&|cp| pvalid(cp) && matches!(o.jt[cp as usize], b'D' | b'L' | b'R'))),
            ("greek_hebrew", 3, all(&|cp| pvalid(cp) && (o.script_of(cp) == "Greek" || o.script_of(cp) == "Hebrew"))),
            ("kana_han", 3, all(&|cp| pvalid(cp) && matches!(o.script_of(cp), "Hiragana" | "Katakana" | "Han") && cp < 0x5000)),
            ("cased", 8, all(&|cp| o.lower16.contains_key(&cp))),
            ("titlecase", 2, all(&|cp| o.lt63[cp as usize])),
            ("width", 5, all(&|cp| o.wm.contains_key(&cp))),
            ("compat", 6, all(&|cp| o.sig[cp as usize] & compat != 0 && cp < 0x10000)),
            ("cherokee", 1, (0x13a0..=0x13f5).collect()),
            ("unassigned", 1, all(&|cp| o.sig[cp as usize] & unas != 0 && cp < 0x3000)),
            ("precomposed", 5, all(&|cp| pvalid(cp) && (0xc0..0x250).contains(&cp))),
            ("symbols", 2, all(&|cp| (0x2190..0x2200).contains(&cp) || (0x1f600..0x1f650).contains(&cp))),
            ("supplementary", 3, all(&|cp| cp >= 0x10000 && o.assigned16[cp as usize] && cp < 0x1f000)),
            ("hangul", 2, (0x1100..=0x1112).chain(0x1161..=0x1175).chain(0x11a8..=0x11c2).chain(0x3131..=0x314e).chain(0xac00..=0xac20).collect()),
            ("any_assigned", 3, all(&|cp| o.assigned16[cp as usize] && cp < 0x30000)),
        ];
        pools.retain(|p| !p.2.is_empty());
        let total = pools.iter().map(|p| p.1).sum();
        Pools { pools, total }
    }

    pub fn draw(&self, rng: &mut Rng) -> (usize, u32) {
        let mut x = rng.below(self.total as u64) as u32;
        for (i, p) in self.pools.iter().enumerate() {
            if x < p.1 {
                return (i, *rng.pick(&p.2));
            }
            x -= p.1;
        }
        (0, 0x61)
    }

    /// a structured random string: a few "themes" (pools) dominate so that rules interact
    pub fn string(&self, rng: &mut Rng, max_len: u64) -> String {
        if rng.chance(1, 25) {
            // repetition: a base, a long run of one character (counts around implementation limits such as 30/31/32), a tail
            let mut s = String::new();
            for _ in 0..rng.below(3) {
                s.push(char::from_u32(self.draw(rng).1).unwrap_or('a'));
            }
            let c = char::from_u32(self.draw(rng).1).unwrap_or('a');
            let n = *rng.pick(&[2u64, 3, 4, 5, 8, 16, 29, 30, 31, 32, 33, 40]);
            for _ in 0..n {
                s.push(c);
            }
            for _ in 0..rng.below(3) {
                s.push(char::from_u32(self.draw(rng).1).unwrap_or('a'));
            }
            return s;
        }
        let len = rng.below(max_len + 1);
        let themes: Vec<usize> = (0..1 + rng.below(3)).map(|_| self.draw(rng).0).collect();
        let mut s = String::new();
        for _ in 0..len {
            let cp = if rng.chance(3, 4) {
                let p = &self.pools[*rng.pick(&themes)];
                *rng.pick(&p.2)
            } else {
                self.draw(rng).1
            };
            if let Some(c) = char::from_u32(cp) {
                s.push(c);
            }
        }
        s
    }
}

pub fn mutate(pools: &Pools, rng: &mut Rng, s: &str) -> String {
    let mut v: Vec<char> = s.chars().collect();
    let n = 1 + rng.below(3);
    for _ in 0..n {
        let c = char::from_u32(pools.draw(rng).1).unwrap_or('a');
        match rng.below(5) {
            0 if !v.is_empty() => {
                let i = rng.below(v.len() as u64) as usize;
                v.remove(i);
            }
            1 => {
                let i = rng.below(v.len() as u64 + 1) as usize;
                v.insert(i, c);
            }
            2 if !v.is_empty() => {
                let i = rng.below(v.len() as u64) as usize;
                v[i] = c;
            }
            3 if v.len() > 1 => {
                let i = rng.below(v.len() as u64 - 1) as usize;
                v.swap(i, i + 1);
            }
            _ => {
                let i = rng.below(v.len() as u64 + 1) as usize;
                v.insert(i, ' ');
            }
        }
    }
    v.truncate(24);
    v.into_iter().collect()
}

/// spellings of one name that a profile may or may not identify
pub fn variants(o: &Oracle, pools: &Pools, rng: &mut Rng, s: &str) -> Vec<String> {
    let upper: String = s.chars().flat_map(|c| c.to_uppercase()).collect();
    let wide: String = s
        .chars()
        .map(|c| {
            let cp = c as u32;
            if (0x21..=0x7e).contains(&cp) {
                char::from_u32(cp + 0xfee0).unwrap()
            } else if cp == 0x20 {
                '\u{3000}'
            } else {
                c
            }
        })
        .collect();
    let spaced = format!(" {} ", s.replace(' ', "  "));
    let mut v = vec![
        s.to_string(),
        p_lower(s),
        upper,
        wide,
        spaced,
        s.nfd().collect(),
        s.nfc().collect(),
        s.nfkc().collect(),
        p_nickspace(o, s),
        mutate(pools, rng, s),
    ];
    v.dedup();
    v
}

// ---- recording -----------------------------------------------------------------------
pub struct Recorder<'a> {
    pub o: &'a Oracle,
    pub out: Box<dyn Write>,
    pub seq: u64,
    pub n: u64,
    pub panics: u64,
    pub nontrivial: u64,
    pub thread: u64,
}

const FORMS: [&str; 3] = ["inst", "static", "long"];

impl<'a> Recorder<'a> {
    pub fn emit(&mut self, mut ev: Value, args: &[String]) {
        let (facts, tbl, capped) = facts_for(self.o, args);
        self.seq += 1;
        let m = ev.as_object_mut().unwrap();
        m.insert("seq".into(), json!(self.seq));
        m.insert("thread".into(), json!(self.thread));
        m.insert("args".into(), Value::Array(args.iter().map(|a| string_to_cps(a)).collect()));
        m.insert("tbl".into(), Value::Array(tbl));
        m.insert("facts".into(), Value::Array(facts));
        m.insert("capped".into(), json!(capped));
        if m["res"].get("panic").is_some() {
            self.panics += 1;
        }
        let r = &m["res"];
        if r.get("err").is_some() || r.get("ok").map(|o| Some(o) != m["args"].get(0)).unwrap_or(false) {
            self.nontrivial += 1;
        }
        writeln!(self.out, "{}", ev).unwrap();
        self.n += 1;
    }

    pub fn call(&mut self, rng: &mut Rng, profile: &str, op: &str, args: &[String]) {
        let is_rule = RULES.contains(&op);
        let form = if is_rule { if rng.chance(1, 2) { "inst" } else { "long" } } else { *rng.pick(&FORMS) };
        let (kn, kind) = *rng.pick(&ARG_KINDS);
        let (res, borrowed) = call_profile_full(profile, form, op, kind, args);
        // C08: every successful enforce result is re-classified and re-enforced
        let c08 = if op == "enforce" {
            res.get("ok").and_then(|o| cps_to_string(o)).and_then(|out| crate::replay_str::c08_check(profile, &out)).map(|v| v.to_string()).unwrap_or_default()
        } else {
            String::new()
        };
        let ev = json!({"ev": "call", "profile": profile, "op": op, "form": form, "arg": kn, "res": res, "c08": c08,
                        "borrowed": match borrowed { Some(true) => "borrowed", Some(false) => "owned", None => "-" }});
        self.emit(ev, args);
    }

    pub fn allows(&mut self, cls: &str, s: &str) {
        let res = call_allows(cls, s);
        self.emit(json!({"ev": "allows", "cls": cls, "res": res}), &[s.to_string()]);
    }

    pub fn ctx(&mut self, rule: &str, s: &str, off: usize) {
        let res = call_ctx(rule, s, off);
        self.emit(json!({"ev": "ctx", "rule": rule, "off": clamp_pos(off), "res": res}), &[s.to_string()]);
    }

    /// a mixed bag of calls on one string, restricted to the requested kinds / profiles
    pub fn exercise(&mut self, rng: &mut Rng, s: &str, per_string: u64, kinds: &[String], profiles: &[String]) {
        let args = [s.to_string()];
        for _ in 0..per_string {
            let kind = rng.pick(kinds).clone();
            let p = rng.pick(profiles).clone();
            match kind.as_str() {
                "enforce" | "prepare" => self.call(rng, &p, &kind, &args),
                "rule" => {
                    let r = *rng.pick(&RULES);
                    self.call(rng, &p, r, &args);
                }
                "allows" => {
                    let cls = if rng.chance(1, 2) { "Id" } else { "Ff" };
                    self.allows(cls, s);
                }
                "ctx" => {
                    let n = s.chars().count();
                    // prefer positions holding a contextual character
                    let mut offs: Vec<usize> = s.chars().enumerate().filter(|(_, c)| !registered_rule(*c as u32).is_empty()).map(|(i, _)| i).collect();
                    if offs.is_empty() || rng.chance(1, 4) {
                        offs = vec![rng.below(n as u64 + 2) as usize];
                    }
                    let off = *rng.pick(&offs);
                    let rule = match s.chars().nth(off).map(|c| registered_rule(c as u32)) {
                        Some(r) if !r.is_empty() && rng.chance(4, 5) => r,
                        _ => *rng.pick(&CTX_RULES),
                    };
                    self.ctx(rule, s, off);
                }
                r if RULES.contains(&r) => self.call(rng, &p, r, &args),
                _ => tool_error("unknown kind"),
            }
        }
    }
}

/// re-execute recorded events (used by `bin/check --replay`): the call of every event in --in is made
/// again and written out as a fresh event with fresh result, tbl and facts
pub fn reexec(args: &[String]) {
    silence_panics();
    let db = arg_value(args, "--oracle").unwrap_or_else(|| tool_error("--oracle"));
    let out = arg_value(args, "--out").unwrap_or_else(|| tool_error("--out"));
    let input = arg_value(args, "--in").unwrap_or_else(|| tool_error("--in"));
    let o = Oracle::load(&db);
    let f = std::io::BufWriter::new(std::fs::File::create(&out).unwrap());
    let mut rec = Recorder { o: &o, out: Box::new(f), seq: 0, n: 0, panics: 0, nontrivial: 0, thread: 0 };
    for line in lines_of(&input) {
        let e: Value = serde_json::from_str(&line).unwrap_or_else(|_| tool_error("bad event"));
        let call_args: Vec<String> = e["args"].as_array().unwrap().iter().map(|a| cps_to_string(a).unwrap()).collect();
        match e["ev"].as_str().unwrap_or("") {
            "call" => {
                let profile = e["profile"].as_str().unwrap();
                let op = e["op"].as_str().unwrap();
                let form = e["form"].as_str().unwrap_or("inst");
                let kn = e["arg"].as_str().unwrap_or("str");
                let (res, _) = call_profile_full(profile, form, op, arg_kind(kn), &call_args);
                rec.emit(json!({"ev": "call", "profile": profile, "op": op, "form": form, "arg": kn, "res": res, "c08": "", "borrowed": "-"}), &call_args);
            }
            "allows" => rec.allows(e["cls"].as_str().unwrap(), &call_args[0]),
            "ctx" => rec.ctx(e["rule"].as_str().unwrap(), &call_args[0], e["off"].as_u64().unwrap() as usize),
            _ => tool_error("unknown event kind"),
        }
    }
    rec.out.flush().unwrap();
    println!("{}", json!({"events": rec.n}));
}

pub fn main(args: &[String]) {
    silence_panics();
    let db = arg_value(args, "--oracle").unwrap_or_else(|| tool_error("--oracle"));
    let out = arg_value(args, "--out").unwrap_or_else(|| tool_error("--out"));
    let driver = arg_value(args, "--driver").unwrap_or_else(|| "mixed".to_string());
    let seed = arg_u64(args, "--seed", 1);
    let n_strings = arg_u64(args, "--strings", 500);
    let per_string = arg_u64(args, "--per-string", 4);
    let max_len = arg_u64(args, "--max-len", 8);
    let corpus_path = arg_value(args, "--corpus");
    let split = |v: Option<String>, d: &str| -> Vec<String> { v.unwrap_or_else(|| d.to_string()).split(',').map(|x| x.to_string()).collect() };
    let kinds = split(arg_value(args, "--kinds"), "enforce,enforce,enforce,prepare,prepare,rule,rule,allows,ctx");
    let profiles = split(arg_value(args, "--profiles"), "UCM,UCP,OPQ,NICK");
    let o = Oracle::load(&db);
    let pools = Pools::new(&o);
    let mut rng = Rng::new(seed);
    let mut corpus: Vec<String> = Vec::new();
    if let Some(p) = corpus_path {
        for line in lines_of(&p) {
            if let Ok(v) = serde_json::from_str::<Value>(&line) {
                if let Some(s) = cps_to_string(&v) {
                    corpus.push(s);
                }
            }
        }
    }
    let f = std::io::BufWriter::with_capacity(1 << 20, std::fs::File::create(&out).unwrap());
    let mut rec = Recorder { o: &o, out: Box::new(f), seq: 0, n: 0, panics: 0, nontrivial: 0, thread: 0 };
    match driver.as_str() {
        "corpus" => {
            for s in corpus.iter() {
                rec.exercise(&mut rng, s, per_string, &kinds, &profiles);
            }
        }
        "echo" => {
            // the same string through one profile / class and IMMEDIATELY afterwards through another one, in the same API
            // form: state left behind by the first call (memo of the last label, per-code-point caches shared between the
            // classes, statics shared between instantiations of a generic function) shows up in the second result
            let specials: [&str; 16] = [
                "guy brush", "Ab cd", "Alice", "\u{3c0}\u{221e}", "a\u{3000}b", "E = mc\u{b2}", "\u{ff21}b\u{3000}c\u{ff44}", "Juliet@Example.COM",
                "\u{3a3}\u{391}\u{39c}", "\u{130}stanbul", "\u{c9}milie\u{ff21}", "pass word", "\u{2163} x", "a\u{301}", "\u{5d0}\u{5d1} 1", "x_\u{aa}",
            ];
            let mut strings: Vec<String> = specials.iter().map(|x| x.to_string()).collect();
            for i in 0..n_strings {
                if i % 3 == 0 {
                    // a character and its aliases under truncation of the code point to 16 or 20 bits
                    let (_, c) = pools.draw(&mut rng);
                    let c = c & 0xffff;
                    let mut t = String::new();
                    for v in [c, c + 0x10000, c + 0x100000, c] {
                        if let Some(ch) = char::from_u32(v) {
                            t.push(ch);
                        }
                    }
                    strings.push(t);
                } else {
                    strings.push(pools.string(&mut rng, max_len));
                }
            }
            for s0 in strings.iter() {
                let args = [s0.clone()];
                for op in ["prepare", "enforce"] {
                    for form in FORMS.iter() {
                        for p in PROFILES.iter() {
                            for q in PROFILES.iter().filter(|q| *q != p) {
                                if !profiles.iter().any(|x| x == p || x == q) {
                                    continue;
                                }
                                for who in [p, q] {
                                    let (kn, kind) = *rng.pick(&ARG_KINDS);
                                    let (res, _) = call_profile_full(who, form, op, kind, &args);
                                    rec.emit(json!({"ev": "call", "profile": who, "op": op, "form": form, "arg": kn, "res": res, "c08": "", "borrowed": "-"}), &args);
                                }
                            }
                        }
                    }
                }
                // "enforce, store, look up": the stored result is compared with respellings of itself right afterwards
                for p in PROFILES.iter().filter(|p| profiles.iter().any(|x| x == *p)) {
                    for (fi, input) in [s0.clone(), format!(" {} ", s0), format!("{}\u{3000}", s0)].iter().enumerate() {
                        let form = FORMS[fi % 3];
                        let a1 = [input.clone()];
                        let (res, _) = call_profile_full(p, form, "enforce", ArgKind::Str, &a1);
                        rec.emit(json!({"ev": "call", "profile": p, "op": "enforce", "form": form, "arg": "str", "res": res.clone(), "c08": "", "borrowed": "-"}), &a1);
                        if let Some(x) = res.get("ok").and_then(|o| cps_to_string(o)) {
                            let lower: String = x.chars().flat_map(|c| c.to_lowercase()).collect();
                            let upper: String = x.chars().flat_map(|c| c.to_uppercase()).collect();
                            for (l, r) in [(x.clone(), lower), (upper, x.clone()), (x.clone(), input.clone())] {
                                let a2 = [l, r];
                                let (res2, _) = call_profile_full(p, form, "compare", ArgKind::Owned, &a2);
                                rec.emit(json!({"ev": "call", "profile": p, "op": "compare", "form": form, "arg": "string", "res": res2, "c08": "", "borrowed": "-"}), &a2);
                            }
                        }
                    }
                }
                for (a, b) in [("Id", "Ff"), ("Ff", "Id")] {
                    rec.allows(a, s0);
                    rec.allows(b, s0);
                    // a class first, then a profile of the other class
                    rec.allows(a, s0);
                    let who = if a == "Id" { "OPQ" } else { "UCP" };
                    let (res, _) = call_profile_full(who, "inst", "prepare", ArgKind::Str, &args);
                    rec.emit(json!({"ev": "call", "profile": who, "op": "prepare", "form": "inst", "arg": "str", "res": res, "c08": "", "borrowed": "-"}), &args);
                }
            }
        }
        "pairs" => {
            // the corpus lines taken two at a time: compare(a, b) through every profile asked for
            for ab in corpus.chunks(2) {
                if ab.len() == 2 {
                    for p in profiles.iter() {
                        rec.call(&mut rng, p, "compare", &[ab[0].clone(), ab[1].clone()]);
                    }
                }
            }
        }
        "limits" => {
            // boundary counts of repeated characters (stream-safe limit 30, small buffers, ...) in strings that
            // are NOT already normalized, so that no fast path hides the normalizer
            let reps: [u32; 10] = [0x301, 0x308, 0x323, 0x5b8, 0x64e, 0x94d, 0x3099, 0x20, 0xa0, 0x200d];
            let prefixes: [&str; 4] = ["a", "\u{2163}a", "Z", "\u{ff21}\u{e9}"];
            let suffixes: [&str; 5] = ["", " \u{ff21}", "\u{3000}", "b", "b c"];
            for c in reps.iter() {
                for n in [5usize, 8, 9, 15, 16, 17, 29, 30, 31, 32, 33, 64, 65, 127, 128, 129, 255, 256, 257, 300] {
                    // every count with an all-ASCII frame and with a randomly chosen frame
                    for (pre, suf) in [("a", "b"), (*rng.pick(&prefixes), *rng.pick(&suffixes))] {
                        let s = format!("{}{}{}", pre, std::iter::repeat(char::from_u32(*c).unwrap()).take(n).collect::<String>(), suf);
                        rec.exercise(&mut rng, &s, per_string, &kinds, &profiles);
                    }
                }
            }
        }
        "ctxpairs" => {
            // every ordered pair of the 27 code points that have a context rule, each in a context in which its rule holds
            // and in one in which it does not: state carried from one contextual code point of a label to the next
            let mut cps: Vec<u32> = vec![0x200c, 0x200d, 0xb7, 0x375, 0x5f3, 0x5f4, 0x30fb];
            cps.extend(0x660..=0x669);
            cps.extend(0x6f0..=0x6f9);
            let pass = |c: u32| -> String {
                match c {
                    0x200c => "\u{628}\u{200c}\u{628}".to_string(),
                    0x200d => "\u{915}\u{94d}\u{200d}".to_string(),
                    0xb7 => "l\u{b7}l".to_string(),
                    0x375 => "\u{375}\u{3b1}".to_string(),
                    0x5f3 => "\u{5d0}\u{5f3}".to_string(),
                    0x5f4 => "\u{5d0}\u{5f4}".to_string(),
                    0x30fb => "\u{30ab}\u{30fb}".to_string(),
                    d => char::from_u32(d).unwrap().to_string(),
                }
            };
            let fail = |c: u32| -> String { format!("a{}b", char::from_u32(c).unwrap()) };
            for x in cps.iter() {
                for y in cps.iter() {
                    let labels = [format!("{}{}", pass(*x), fail(*y)), format!("{}{}", pass(*x), pass(*y)), format!("{}{}", fail(*x), pass(*y)),
                                  format!("{}{}", char::from_u32(*x).unwrap(), char::from_u32(*y).unwrap())];
                    for (li, s0) in labels.iter().enumerate() {
                        // both classes on half of the labels each (the classes share the loop), the rule of y at y's position
                        rec.allows(if (li + (*x as usize) + (*y as usize)) % 2 == 0 { "Id" } else { "Ff" }, s0);
                        if li == 0 {
                            let pos = s0.chars().count() - 2;
                            let rule = registered_rule(*y);
                            if !rule.is_empty() && rule != "?" {
                                rec.ctx(rule, s0, pos);
                            }
                        }
                    }
                }
            }
        }
        "ctxlimits" => {
            // runs of 0..300 characters between a contextual code point and the neighbour / the other label member that decides
            // its rule: transparent marks (the rule has to look across them), letters and digits (it must not)
            let fillers: [u32; 4] = [0x64b, 0x300, 0x61, 0x5b8];
            let templates: [(&str, &str, &str); 12] = [
                ("\u{628}", "\u{200c}\u{628}", "zwnj"), ("\u{628}\u{200c}", "\u{628}", "zwnj"), ("", "\u{200c}\u{628}", "zwnj"), ("\u{628}\u{200c}", "", "zwnj"),
                ("\u{915}\u{94d}", "\u{200d}", "zwj"), ("l", "\u{b7}l", "middle_dot"), ("\u{375}", "\u{3b1}", "keraia"), ("\u{5d0}", "\u{5f3}", "hebrew"),
                ("\u{30fb}", "\u{30ab}", "katakana"), ("\u{661}", "\u{6f1}", "arabic_indic"), ("\u{6f1}", "\u{661}", "ext_arabic_indic"), ("\u{661}", "\u{662}", "arabic_indic"),
            ];
            for (pre, post, rule) in templates.iter() {
                for f in fillers.iter() {
                    for n in [0usize, 1, 2, 16, 30, 31, 32, 33, 34, 64, 65, 127, 128, 129, 255, 256, 257, 300] {
                        let mut s0 = String::from(*pre);
                        s0.extend(std::iter::repeat(char::from_u32(*f).unwrap()).take(n));
                        s0.push_str(post);
                        if s0.is_empty() {
                            continue;
                        }
                        rec.allows(if n % 2 == 0 { "Id" } else { "Ff" }, &s0);
                        // the rule at the position of its own character: the first contextual character of pre, else of post
                        let chars: Vec<char> = s0.chars().collect();
                        let own = |c: char| !registry_obs(c as u32).is_empty();
                        let pre_n = pre.chars().count();
                        let pos = match pre.chars().position(own) {
                            Some(i) => i,
                            None => pre_n + n + post.chars().position(own).unwrap_or(0),
                        };
                        if pos < chars.len() {
                            rec.ctx(rule, &s0, pos);
                        }
                    }
                }
            }
        }
        "expanders" => {
            // the characters whose normalized / lower-cased form is longest relative to their own length (fixed-size
            // scratch buffers sized by an "expansion factor"), repeated 1..64 times alone and behind a letter
            let mut scored: Vec<(u32, usize, u32)> = Vec::new(); // (kind, ratio x 100, cp)
            for cp in 0..0x110000u32 {
                if let Some(c) = char::from_u32(cp) {
                    let own = c.len_utf8();
                    let t = c.to_string();
                    let k = t.nfkc().collect::<String>().len();
                    let n = t.nfc().collect::<String>().len();
                    let l = c.to_lowercase().collect::<String>().len();
                    for (kind, len) in [(0u32, k), (1, n), (2, l)] {
                        if len > own {
                            scored.push((kind, len * 100 / own, cp));
                        }
                    }
                }
            }
            let mut reps: Vec<u32> = Vec::new();
            for kind in 0..3u32 {
                let mut v: Vec<&(u32, usize, u32)> = scored.iter().filter(|x| x.0 == kind).collect();
                v.sort_by(|a, b| b.1.cmp(&a.1).then(a.2.cmp(&b.2)));
                for x in v.iter().take(if kind == 0 { 6 } else { 3 }) {
                    reps.push(x.2);
                }
            }
            reps.sort();
            reps.dedup();
            for c in reps.iter() {
                let ch = char::from_u32(*c).unwrap();
                for n in [1usize, 2, 3, 5, 6, 7, 8, 12, 13, 16, 17, 20, 21, 22, 23, 30, 64] {
                    for pre in ["", "a "] {
                        let s = format!("{}{}", pre, std::iter::repeat(ch).take(n).collect::<String>());
                        rec.exercise(&mut rng, &s, per_string, &kinds, &profiles);
                    }
                }
            }
        }
        "marks" => {
            // long runs of combining marks that need canonical reordering (two or three classes, given in descending
            // order, alternating, and already sorted) behind a base that composes with some of them
            let sets: [&[u32]; 5] = [&[0x301, 0x323], &[0x323, 0x301], &[0x5b8, 0x5bc, 0x5c1], &[0x64e, 0x651], &[0x3099, 0x301, 0x323]];
            let bases: [&str; 4] = ["a", "\u{5d0}", "\u{628}", "\u{30ab}"];
            for (si, set) in sets.iter().enumerate() {
                for n in [3usize, 10, 31, 32, 33, 100, 255, 256, 300] {
                    for pattern in 0..2 {
                        let mut s = String::from(bases[si % bases.len()]);
                        for k in 0..n {
                            let m = if pattern == 0 { set[k % set.len()] } else { set[(k * set.len()) / n] };
                            s.push(char::from_u32(m).unwrap());
                        }
                        s.push('z');
                        rec.exercise(&mut rng, &s, per_string, &kinds, &profiles);
                    }
                }
            }
        }
        "runs" => {
            // stretches of consecutive code points (all digits of a script, part of an alphabet), with tails that
            // satisfy contextual rules
            let starts: [u32; 16] = [0x30, 0x41, 0x660, 0x6f0, 0x966, 0x5d0, 0x621, 0x3b1, 0x3041, 0x30a1, 0x30f5, 0xff10, 0xff21, 0x10400, 0x2000, 0xb0];
            let tails: [&str; 5] = ["", "\u{30fb}\u{30ab}", "\u{65e5}\u{30fb}", "l\u{b7}l", "\u{5d0}"];
            for st in starts.iter() {
                for n in [6usize, 10, 11, 16] {
                    let tail = *rng.pick(&tails);
                    let mut s: String = (0..n as u32).filter_map(|k| char::from_u32(st + k)).collect();
                    s.push_str(tail);
                    rec.exercise(&mut rng, &s, per_string, &kinds, &profiles);
                }
            }
        }
        "families" => {
            // compare matrices of variant families
            for i in 0..n_strings {
                let base = if !corpus.is_empty() && i % 2 == 0 { rng.pick(&corpus).clone() } else { pools.string(&mut rng, max_len) };
                let mut fam = variants(&o, &pools, &mut rng, &base);
                fam.truncate(5);
                let p = rng.pick(&profiles).clone();
                for a in fam.iter() {
                    for b in fam.iter() {
                        rec.call(&mut rng, &p, "compare", &[a.clone(), b.clone()]);
                    }
                }
            }
        }
        _ => {
            for i in 0..n_strings {
                let s = match i % 4 {
                    0 if !corpus.is_empty() => {
                        let base = rng.pick(&corpus).clone();
                        mutate(&pools, &mut rng, &base)
                    }
                    _ => pools.string(&mut rng, max_len),
                };
                rec.exercise(&mut rng, &s, per_string, &kinds, &profiles);
            }
        }
    }
    rec.out.flush().unwrap();
    println!("{}", json!({"events": rec.n, "panics": rec.panics, "nontrivial": rec.nontrivial}));
}
