"""Layer L3: traces of real API calls on real Unicode strings, validated by TLC (Trace_Api.tla)."""
import json
import os
import re
import subprocess
from concurrent.futures import ThreadPoolExecutor

from common import nl_lines, CACHE, REPO, VERIF, ensure_oracle, log, run_harness, run_tlc, tool_error

BATCH = 2500


def rust_unescape(lit):
    """decode the body of a Rust string literal (enough for the repository's tests)"""
    out = []
    i = 0
    while i < len(lit):
        c = lit[i]
        if c != "\\":
            out.append(c)
            i += 1
            continue
        n = lit[i + 1] if i + 1 < len(lit) else ""
        if n == "u":
            m = re.match(r"\\u\{([0-9a-fA-F_]+)\}", lit[i:])
            if not m:
                return None
            cp = int(m.group(1).replace("_", ""), 16)
            if cp > 0x10FFFF or 0xD800 <= cp <= 0xDFFF:
                return None
            out.append(chr(cp))
            i += len(m.group(0))
        elif n == "x":
            out.append(chr(int(lit[i + 2:i + 4], 16)))
            i += 4
        elif n in "nrt0\\\"'":
            out.append({"n": "\n", "r": "\r", "t": "\t", "0": "\0", "\\": "\\", '"': '"', "'": "'"}[n])
            i += 2
        elif n == "\n":
            i += 2
            while i < len(lit) and lit[i] in " \t\n":
                i += 1
        else:
            return None
    return "".join(out)


_LIT = re.compile(r'"((?:[^"\\]|\\.)*)"', re.S)


def extract_corpus():
    """string literals of the repository's own tests and doc examples (current tree) merged with
    the pinned copy extracted from the pristine repository (data/corpus.json)"""
    strings = set()
    pinned = os.path.join(VERIF, "data", "corpus.json")
    if os.path.exists(pinned):
        strings.update(json.load(open(pinned)))
    for crate in ("precis-core", "precis-profiles"):
        for sub in ("src", "tests"):
            d = os.path.join(REPO, crate, sub)
            if not os.path.isdir(d):
                continue
            for fn in sorted(os.listdir(d)):
                if not fn.endswith(".rs"):
                    continue
                try:
                    text = open(os.path.join(d, fn), encoding="utf-8").read()
                except Exception:
                    continue
                for m in _LIT.finditer(text):
                    s = rust_unescape(m.group(1))
                    if s is not None and 0 < len(s) <= 40:
                        strings.add(s)
    return sorted(strings)


def write_corpus(path):
    c = extract_corpus()
    with open(path, "w") as f:
        for s in c:
            f.write(json.dumps([ord(ch) for ch in s]) + "\n")
    return len(c)


def _validate_batch(path):
    res = run_tlc("Trace_Api", modules_dir="trace", env={"TRACE": path}, workers=1, timeout=1500, heap="3g")
    if res.error or res.rc != 0:
        print(res.out[-3000:])
        tool_error("TLC failed on an L3 trace batch: %s" % res.error)
    bad = None
    res.extra = []
    for tag, payload in res.printed:
        if tag == "BAD":
            bad = json.loads(payload)
        elif tag == "EXTRA":
            res.extra = json.loads(payload)
    if bad is None:
        print(res.out[-2000:])
        tool_error("L3 batch not fully consumed")
    return res, bad


def strip_event(e):
    return {k: v for k, v in e.items() if k not in ("tbl", "facts")}


def l3_run(chk, name, driver="mixed", strings=600, per_string=4, kinds=None, profiles=None, max_len=8, classify_bad=None, seed_offset=0, corpus_file=None):
    """record a trace with the harness, validate it batch-wise with TLC, fold into chk"""
    oracle = ensure_oracle()
    tag = "%d-%s" % (os.getpid(), re.sub(r"\W", "", name))
    trace = os.path.join(CACHE, "l3-%s.ndjson" % tag)
    corpus = os.path.join(CACHE, "corpus-%s.ndjson" % tag)
    if corpus_file:
        import shutil
        shutil.copyfile(corpus_file, corpus)
        n_corpus = len(nl_lines(open(corpus).read()))
    else:
        n_corpus = write_corpus(corpus)
    args = ["record", "--oracle", oracle, "--out", trace, "--driver", driver, "--seed", str(chk.seed * 7919 + seed_offset),
            "--strings", str(strings), "--per-string", str(per_string), "--corpus", corpus, "--max-len", str(max_len)]
    if kinds:
        args += ["--kinds", ",".join(kinds)]
    if profiles:
        args += ["--profiles", ",".join(profiles)]
    out, t_h = run_harness(args)
    info = json.loads(nl_lines(out)[-1])
    lines = nl_lines(open(trace).read())
    os.remove(trace)
    os.remove(corpus)
    batches = []
    for i in range(0, len(lines), BATCH):
        p = os.path.join(CACHE, "l3-%s-b%d.ndjson" % (tag, i // BATCH))
        with open(p, "w") as f:
            f.write("\n".join(lines[i:i + BATCH]) + "\n")
        batches.append((i, p))
    states = 0
    known = 0
    n_viol = 0
    wall = 0.0
    try:
        with ThreadPoolExecutor(max_workers=4) as ex:
            results = list(ex.map(lambda b: _validate_batch(b[1]), batches))
    finally:
        for _, p in batches:
            try:
                os.remove(p)
            except OSError:
                pass
    from props import KF_BIDI
    n_cow = 0
    for (base, _), (res, bad) in zip(batches, results):
        n_cow += len(res.extra)
        if res.extra and n_cow == len(res.extra):
            e0 = json.loads(lines[base + res.extra[0] - 1])
            chk.notes.append("L3 %s: Cow variant of a result is not 'borrowed iff borrowed argument left unchanged' (beyond the listed properties): %s"
                             % (name, json.dumps(strip_event(e0))[:300]))
        states += res.distinct
        wall = max(wall, res.wall)
        chk.cov["states"] += res.distinct
        chk.cov["transitions"] += res.generated
        for b in bad:
            e = json.loads(lines[base + b["l"] - 1])
            j = b["j"]
            if j == "known:bidi_nsm_strict":
                chk.known_finding(KF_BIDI)
                known += 1
            elif j == "missingfact":
                if e.get("capped"):
                    chk.notes.append("L3 %s: event skipped, fact closure capped" % name)
                else:
                    tool_error("L3: missing normalization fact for an uncapped event: %s" % json.dumps(strip_event(e))[:400])
            elif j == "order":
                tool_error("L3: sequence numbers out of order")
            else:
                n_viol += 1
                what = "the same call returned different results (history / API form / thread dependence)" if j == "memo" else \
                    "recorded result is not explained by the specification"
                chk.violation("L3 %s: %s: %s" % (name, what, json.dumps(strip_event(e), sort_keys=True)[:700]),
                              {"layer": "L3", "trace": name, "judgement": j, "event": strip_event(e), "tbl": e.get("tbl"), "facts": e.get("facts")})
    # C08 observations attached to successful enforce events
    from props import classify_std
    for ln in lines:
        if '"c08":"{' in ln:
            e = json.loads(ln)
            m = {"k": "c08", "p": e["profile"], "in": e["args"][0], "what": json.loads(e["c08"])}
            fid = classify_std(m)
            if fid:
                chk.known_finding(fid)
            else:
                chk.violation("L3 %s: enforce output violates C08: %s" % (name, json.dumps(m, sort_keys=True)[:500]),
                              {"layer": "L3", "trace": name, "judgement": "c08", "event": strip_event(e)})
    # panics are violations whatever the specification says about the result
    for ln in lines:
        if '"panic"' in ln:
            e = json.loads(ln)
            if isinstance(e.get("res"), dict) and "panic" in e["res"]:
                chk.violation("L3 %s: panic in a public operation: %s" % (name, json.dumps(strip_event(e), sort_keys=True)[:500]),
                              {"layer": "L3", "trace": name, "judgement": "panic", "event": strip_event(e)})
                break
    chk.cov["traces_validated_against_impl"] += len(batches)
    chk.cov["evaluations"] += info["events"]
    chk.cov["distinct_nontrivial"] += info["nontrivial"]
    chk.add_part("L3:" + name, {"events": info["events"], "nontrivial": info["nontrivial"], "panics": info["panics"], "batches": len(batches),
                                "tlc_states": states, "tlc_wall_s": round(wall, 1), "corpus_strings": n_corpus, "known": known,
                                "unexplained": n_viol, "driver": driver, "cow_deviations": n_cow})
    for ln in lines[:2]:
        chk.sample({"layer": "L3", "trace": name, "event": strip_event(json.loads(ln))})
    return info


def long_run(chk, profiles=None, ops=None, random_units=60, name="long", max_bytes=None, ctx=False):
    """the power law of Profiles.tla (model-checked as PowerLawHolds) applied to the real code on inputs of up to 64 KiB;
    the results for the units themselves are judged by TLC"""
    import shutil
    oracle = ensure_oracle()
    d = os.path.join(CACHE, "long-%d" % os.getpid())
    try:
        if max_bytes is None:
            max_bytes = 17000 if chk.tier == "quick" else 70000
        args = ["long", "--oracle", oracle, "--dir", d, "--seed", str(chk.seed), "--random-units", str(random_units),
                "--max-bytes", str(max_bytes), "--threads", "12"]
        if profiles:
            args += ["--profiles", ",".join(profiles)]
        if ops:
            args += ["--ops", ",".join(ops)]
        if ctx:
            args += ["--ctx"]
        out, t = run_harness(args, timeout=3000)
        summ = None
        for line in nl_lines(out):
            v = json.loads(line)
            if "summary" in v:
                summ = v["summary"]
            elif "problem" in v:
                pr = v["problem"]
                chk.violation("long input: the result for a repeated / padded unit is not what the laws PowerLaw / PadLaw of the specification derive from the result for the unit: %s"
                              % json.dumps(pr, sort_keys=True)[:800], {"layer": "long", "case": pr})
        if summ is None:
            tool_error("long driver gave no summary")
        chk.add_part("long inputs: power and pad laws on inputs up to %d bytes" % summ["longest_input_bytes"], dict(summ, wall_s=round(t, 1)))
        chk.cov["evaluations"] += summ["calls"]
        kinds = list(ops) if ops else ["enforce", "prepare", "rule"]
        if ctx:
            kinds = ["ctx", "ctx", "allows"]
        if ops and "compare" in ops:
            l3_run(chk, name + "-pairs", driver="pairs", profiles=profiles, corpus_file=os.path.join(d, "pairs.ndjson"))
            kinds = [k for k in kinds if k != "compare"] or ["enforce"]
        l3_run(chk, name + "-units", driver="corpus", per_string=4, kinds=kinds, profiles=profiles, corpus_file=os.path.join(d, "units.ndjson"))
    finally:
        shutil.rmtree(d, ignore_errors=True)


def race_run(chk, processes=100, long_processes=4, threads=16, judge=True):
    """C16: concurrent results equal the sequential ones (pvh race); the sequential ones are judged by TLC"""
    import shutil
    oracle = ensure_oracle()
    d = os.path.join(CACHE, "race-%d" % os.getpid())
    try:
        out, t = run_harness(["race", "--oracle", oracle, "--dir", d, "--seed", str(chk.seed), "--processes", str(processes),
                              "--long-processes", str(long_processes), "--threads", str(threads)], timeout=3000)
        summ = None
        for line in nl_lines(out):
            v = json.loads(line)
            if "summary" in v:
                summ = v["summary"]
            elif "problem" in v:
                pr = v["problem"]
                what = "a call repeated sequentially gave a different result" if pr.get("sequential_history") else \
                    "a call made while other threads were calling the library gave a different result than the same call made sequentially"
                chk.violation("race: %s: %s" % (what, json.dumps(pr, sort_keys=True)[:700]), {"layer": "race", "case": pr})
        if summ is None:
            tool_error("race driver gave no summary")
        chk.add_part("race: fresh processes x barrier-released threads vs sequential reference", dict(summ, wall_s=round(t, 1)))
        chk.cov["evaluations"] += summ["concurrent_calls"] + summ["reference_calls"]
        # the reference side: the same inputs, recorded sequentially and judged by TLC
        if judge:
            l3_run(chk, "race-inputs", driver="corpus", per_string=6, kinds=["enforce", "enforce", "prepare"], corpus_file=os.path.join(d, "inputs.ndjson"))
    finally:
        shutil.rmtree(d, ignore_errors=True)


def session_run(chk, processes=6, threads=8, calls=40):
    """C16: multi-threaded sessions, one fresh process each; all traces validated together (shared memo)"""
    oracle = ensure_oracle()
    tag = "%d-session" % os.getpid()
    corpus = os.path.join(CACHE, "corpus-%s.ndjson" % tag)
    write_corpus(corpus)
    lines = []
    infos = []
    for i in range(processes):
        trace = os.path.join(CACHE, "l3-%s-%d.ndjson" % (tag, i))
        # the same seed for groups of three processes: the same inputs under different schedules
        out, _ = run_harness(["session", "--oracle", oracle, "--out", trace, "--seed", str(chk.seed * 100 + i // 3), "--threads", str(threads),
                              "--calls", str(calls), "--corpus", corpus, "--thread-base", str(i * 100)])
        infos.append(json.loads(nl_lines(out)[-1]))
        lines += nl_lines(open(trace).read())
        os.remove(trace)
    os.remove(corpus)
    batches = []
    for i in range(0, len(lines), BATCH):
        p = os.path.join(CACHE, "l3-%s-b%d.ndjson" % (tag, i // BATCH))
        with open(p, "w") as f:
            f.write("\n".join(lines[i:i + BATCH]) + "\n")
        batches.append((i, p))
    try:
        with ThreadPoolExecutor(max_workers=4) as ex:
            results = list(ex.map(lambda b: _validate_batch(b[1]), batches))
    finally:
        for _, p in batches:
            try:
                os.remove(p)
            except OSError:
                pass
    from props import KF_BIDI
    states = 0
    for (base, _), (res, bad) in zip(batches, results):
        states += res.distinct
        chk.cov["states"] += res.distinct
        chk.cov["transitions"] += res.generated
        for b in bad:
            e = json.loads(lines[base + b["l"] - 1])
            if b["j"] == "known:bidi_nsm_strict":
                chk.known_finding(KF_BIDI)
            elif b["j"] == "missingfact" and e.get("capped"):
                continue
            elif b["j"] in ("missingfact", "order"):
                tool_error("session trace: %s" % b["j"])
            else:
                what = "the same call returned different results across threads / forms / histories" if b["j"] == "memo" else \
                    "result of a concurrent call is not explained by the specification"
                chk.violation("session: %s: %s" % (what, json.dumps(strip_event(e), sort_keys=True)[:700]),
                              {"layer": "L3-session", "judgement": b["j"], "event": strip_event(e)})
    # cross-batch memo: equal calls must have equal results over the whole run
    memo = {}
    for ln in lines:
        e = json.loads(ln)
        k = json.dumps([e["profile"], e["op"], e["args"]])
        r = json.dumps(e["res"], sort_keys=True)
        if k in memo and memo[k] != r:
            chk.violation("session: the same call returned different results: %s" % k[:300], {"layer": "L3-session", "judgement": "memo", "call": json.loads(k),
                                                                                               "results": [json.loads(memo[k]), e["res"]]})
            break
        memo[k] = r
    n_ev = sum(i["events"] for i in infos)
    chk.cov["traces_validated_against_impl"] += processes
    chk.cov["evaluations"] += n_ev
    chk.cov["distinct_nontrivial"] += len(memo)
    chk.add_part("L3:sessions", {"processes": processes, "threads": threads, "events": n_ev, "distinct_calls": len(memo), "tlc_states": states,
                                 "first_static_profiles": sorted(set(i["first_static"] for i in infos))})
    if lines:
        chk.sample({"layer": "L3-session", "event": strip_event(json.loads(lines[0]))})


def _validate_csv_batch(path):
    res = run_tlc("Trace_Csv", modules_dir="trace", env={"TRACE": path}, workers=1, timeout=1500, heap="3g")
    if res.error or res.rc != 0:
        print(res.out[-3000:])
        tool_error("TLC failed on a CSV trace batch: %s" % res.error)
    bad = None
    for tag, payload in res.printed:
        if tag == "BAD":
            bad = json.loads(payload)
    if bad is None:
        tool_error("CSV batch not fully consumed")
    return res, bad


def csv_trace_run(chk, rows=20000):
    tag = "%d-csv" % os.getpid()
    trace = os.path.join(CACHE, "csv-%s.ndjson" % tag)
    scratch = os.path.join(CACHE, "pvh-csvsynth-%d" % os.getpid())
    try:
        out, t = run_harness(["csvfuzz", "--seed", str(chk.seed), "--rows", str(rows), "--out", trace, "--scratch", scratch,
                              "--registry", os.path.join(VERIF, "data", "csv", "precis-tables-6.3.0.csv")])
    finally:
        import shutil
        shutil.rmtree(scratch, ignore_errors=True)
    summary = json.loads(nl_lines(out)[-1])["summary"]
    lines = nl_lines(open(trace).read())
    os.remove(trace)
    B = 10000
    batches = []
    for i in range(0, len(lines), B):
        p = os.path.join(CACHE, "csv-%s-b%d.ndjson" % (tag, i // B))
        with open(p, "w") as f:
            f.write("\n".join(lines[i:i + B]) + "\n")
        batches.append((i, p))
    try:
        with ThreadPoolExecutor(max_workers=4) as ex:
            results = list(ex.map(lambda b: _validate_csv_batch(b[1]), batches))
    finally:
        for _, p in batches:
            try:
                os.remove(p)
            except OSError:
                pass
    n_bad = 0
    for (base, _), (res, bad) in zip(batches, results):
        chk.cov["states"] += res.distinct
        chk.cov["transitions"] += res.generated
        for l in bad:
            e = json.loads(lines[base + l - 1])
            n_bad += 1
            chk.violation("CSV row not read back as written / corruption accepted / panic: %s" % json.dumps(e, sort_keys=True)[:600],
                          {"layer": "L3-csv", "event": e})
    reg = summary["registry"]
    if reg.get("checked") and reg.get("diffs"):
        chk.violation("the shipped registry file is not read back as written: %s" % json.dumps(reg)[:500], {"layer": "L3-csv", "registry": reg})
    syn = summary.get("synthetic", {})
    if syn.get("checked") and syn.get("diffs"):
        chk.violation("a registry file with long descriptions / malformed rows is not read back as written through the line parser: %s"
                      % json.dumps(syn)[:700], {"layer": "L3-csv", "synthetic": syn})
    chk.cov["traces_validated_against_impl"] += len(batches)
    chk.cov["evaluations"] += summary["rows"] + syn.get("rows", 0)
    chk.cov["distinct_nontrivial"] += summary["corrupted"]
    chk.add_part("L3:csv rows", dict(summary, unexplained=n_bad, wall_s=round(t, 1)))
    for ln in lines[:2]:
        chk.sample({"layer": "L3-csv", "event": json.loads(ln)})
