-------------------------- MODULE CodepointsProof --------------------------
(***************************************************************************)
(* C18 for ALL natural numbers, not only for a window: the properties of   *)
(* the hand-written comparison operators (Codepoints.tla) proved with      *)
(* TLAPS.  The operators are restated here over plain integers (an entry   *)
(* is its kind and bounds) so that the obligations are linear arithmetic.  *)
(* MC_Codepoints checks the same statements over a window through the      *)
(* record-based definitions and replays them against the real type; this   *)
(* module removes the "a window of 7 is enough for an order-only           *)
(* definition" argument from the trusted base of the model-level claim.    *)
(***************************************************************************)
EXTENDS Integers, TLAPS

\* single entry c / range entry s..e ; cp a code point
EqS(c, cp) == c = cp
LtS(c, cp) == c < cp
LeS(c, cp) == c <= cp
GtS(c, cp) == c > cp
GeS(c, cp) == c >= cp

EqR(s, e, cp) == s <= cp /\ cp <= e       \* r.contains(other)
LtR(s, e, cp) == e < cp                   \* r.end() < other
LeR(s, e, cp) == s <= cp                  \* r.start() <= other
GtR(s, e, cp) == s > cp                   \* r.start() > other
GeR(s, e, cp) == e >= cp                  \* r.end() >= other

\* mirrored (code point on the left)
MLtR(cp, s, e) == cp < s
MLeR(cp, s, e) == cp <= e
MGtR(cp, s, e) == cp > e
MGeR(cp, s, e) == cp >= s

THEOREM RangeTrichotomy ==
  ASSUME NEW s \in Nat, NEW e \in Nat, NEW cp \in Nat, s <= e
  PROVE  /\ LtR(s, e, cp) \/ EqR(s, e, cp) \/ GtR(s, e, cp)
         /\ ~(LtR(s, e, cp) /\ EqR(s, e, cp))
         /\ ~(LtR(s, e, cp) /\ GtR(s, e, cp))
         /\ ~(EqR(s, e, cp) /\ GtR(s, e, cp))
  BY DEF LtR, EqR, GtR

THEOREM RangeCoherent ==
  ASSUME NEW s \in Nat, NEW e \in Nat, NEW cp \in Nat, s <= e
  PROVE  /\ LeR(s, e, cp) <=> (LtR(s, e, cp) \/ EqR(s, e, cp))
         /\ GeR(s, e, cp) <=> (GtR(s, e, cp) \/ EqR(s, e, cp))
  BY DEF LeR, GeR, LtR, EqR, GtR

THEOREM RangeMirrored ==
  ASSUME NEW s \in Nat, NEW e \in Nat, NEW cp \in Nat, s <= e
  PROVE  /\ MLtR(cp, s, e) <=> GtR(s, e, cp)
         /\ MGtR(cp, s, e) <=> LtR(s, e, cp)
         /\ MLeR(cp, s, e) <=> GeR(s, e, cp)
         /\ MGeR(cp, s, e) <=> LeR(s, e, cp)
  BY DEF MLtR, MGtR, MLeR, MGeR, GtR, LtR, GeR, LeR

THEOREM SingleTrichotomy ==
  ASSUME NEW c \in Nat, NEW cp \in Nat
  PROVE  /\ LtS(c, cp) \/ EqS(c, cp) \/ GtS(c, cp)
         /\ ~(LtS(c, cp) /\ EqS(c, cp)) /\ ~(LtS(c, cp) /\ GtS(c, cp)) /\ ~(EqS(c, cp) /\ GtS(c, cp))
         /\ LeS(c, cp) <=> (LtS(c, cp) \/ EqS(c, cp))
         /\ GeS(c, cp) <=> (GtS(c, cp) \/ EqS(c, cp))
  BY DEF LtS, EqS, GtS, LeS, GeS

\* Entries laid out in increasing order are a valid binary-search key: for two disjoint ordered entries
\* [s1,e1] < [s2,e2] the comparison results against any cp are monotone (never Greater followed by Less)
THEOREM SortedIsMonotone ==
  ASSUME NEW s1 \in Nat, NEW e1 \in Nat, NEW s2 \in Nat, NEW e2 \in Nat, NEW cp \in Nat,
         s1 <= e1, s2 <= e2, e1 < s2
  PROVE  /\ GtR(s1, e1, cp) => GtR(s2, e2, cp)          \* if the earlier entry is above cp, so is the later one
         /\ LtR(s2, e2, cp) => LtR(s1, e1, cp)          \* if the later entry is below cp, so is the earlier one
         /\ ~(EqR(s1, e1, cp) /\ EqR(s2, e2, cp))       \* at most one entry contains cp
  BY DEF GtR, LtR, EqR
=============================================================================
