-------------------------------- MODULE MC_Csv --------------------------------
(***************************************************************************)
(* C17: files of a header and up to MaxRows data lines, each drawn from a  *)
(* catalogue of well-formed row shapes and of corruptions of them (delete  *)
(* a field, empty a field, unknown property, malformed code point, ...).   *)
(***************************************************************************)
EXTENDS Csv, Json

CONSTANTS MaxRows

MCHexVal == ("0041" :> 65) @@ ("005A" :> 90) @@ ("10FFFF" :> 1114111) @@ ("0" :> 0)

\* ---- the catalogue ----------------------------------------------------------------------
GoodCps   == {<<"0041">>, <<"10FFFF">>, <<"0041", "-", "005A">>, <<"0">>, <<"005A", "-", "005A">>}
BadCps    == {<<>>, <<"110000">>, <<"00G1">>, <<"0041", "-">>, <<"-", "005A">>, <<"0041", "-", "00G1">>, <<"0041", " ">>, <<"0041", "-", "005A", "-", "10FFFF">>,
              <<"004É">>, <<"€">>, <<"0041", "-", "005Ａ">>}
GoodProps == {<<"PVALID">>, <<"UNASSIGNED">>, <<"ID_DIS", " or ", "FREE_PVAL">>, <<"CONTEXTJ", " or ", "CONTEXTO">>}
BadProps  == {<<>>, <<"BOGUS">>, <<"PVALID", " or ", "BOGUS">>, <<"PVALID", " or ">>, <<" or ", "PVALID">>,
              <<"ID_DIS", " or ", "FREE_PVAL", " or ", "PVALID">>, <<" ", "PVALID">>, <<"PVALID", " ">>, <<"pvalid">>, <<"PVALIĐ">>, <<"ID_DIS", " or ", "FREE_PVAŁ">>}
Descs     == {<<>>, <<"LATIN CAPITAL LETTER A">>, <<"a", ",", "b">>, <<"x", ",", ",", "y">>, <<"this", " or ", "that">>,
              <<"SPACE", " ">>, <<" ">>}      \* descriptions ending in, or consisting of, white space

Row(c, p, d) == c \o <<",">> \o p \o <<",">> \o d
GoodRows == {Row(c, p, d) : c \in GoodCps, p \in GoodProps, d \in Descs}
\* corruptions: a malformed first or second column, a missing field, an empty line
BadRows  == {Row(c, p, <<"d">>) : c \in BadCps, p \in {<<"PVALID">>}}
            \cup {Row(c, p, <<"d">>) : c \in {<<"0041">>}, p \in BadProps}
            \cup {<<"0041", ",", "PVALID">>, <<"0041">>, <<>>, <<",", ",">>, <<"0041", ",", ",", "d">>, <<",", "PVALID", ",", "d">>}
\* a reduced catalogue for multi-line files
SomeRows == {Row(<<"0041">>, <<"PVALID">>, <<"a", ",", "b">>), Row(<<"0041", "-", "005A">>, <<"ID_DIS", " or ", "FREE_PVAL">>, <<>>),
             Row(<<"10FFFF">>, <<"UNASSIGNED">>, <<"d">>),
             <<>>, <<"0041", ",", "PVALID">>, Row(<<"00G1">>, <<"PVALID">>, <<"d">>), Row(<<"0041">>, <<"BOGUS">>, <<"d">>),
             Row(<<"0041">>, <<"ID_DIS", " or ", "FREE_PVAL", " or ", "PVALID">>, <<"d">>),
             Row(<<"0041">>, <<"PVALID">>, <<"not UTF-8: ", "<BAD-UTF8>">>)}
Headers  == {<<"Codepoint", ",", "Property", ",", "Description">>, <<>>, <<"0041", ",", "PVALID", ",", "not a header">>,
             <<"Codepoint", ",", "Property", ",", "Descripci", "<BAD-UTF8>", "n">>}
Terms    == {"\n", "\r\n"}

VARIABLES file, mode
vars == <<file, mode>>

Line(t, term) == [toks |-> t, term |-> term]

\* mode "one": header + one row of the full catalogue; mode "many": header + up to MaxRows rows of the reduced one
Init == \/ /\ mode = "one"
           /\ \E h \in {<<"Codepoint", ",", "Property", ",", "Description">>}, r \in GoodRows \cup BadRows, t \in Terms \cup {""} :
                /\ (r = <<>> => t # "")          \* no bytes at all is not a physical line
                /\ file = <<Line(h, "\n"), Line(r, t)>>
        \/ /\ mode = "many"
           /\ \E h \in Headers, t \in Terms : file = <<Line(h, t)>>
AddRow == /\ mode = "many" /\ Len(file) <= MaxRows
          /\ \E r \in SomeRows, t \in Terms : file' = Append(file, Line(r, t))
          /\ UNCHANGED mode
Next == AddRow
Spec == Init /\ [][Next]_vars

\* ---- C17 ---------------------------------------------------------------------------------
Its == Items(MCHexVal, file)

\* rows are delivered in file order, the header is skipped, errors carry the physical line number
\* (an undecodable header is reported as an I/O error item instead of being skipped)
Shift == IF BadUtf8(file[1]) THEN 0 ELSE 1
OneItemPerDataLine == Len(Its) = Len(file) - Shift
LineNumbers == \A i \in 1..Len(Its) : ("err" \in DOMAIN Its[i]) => Its[i].err = i + Shift
UndecodableLinesReported == \A i \in 1..Len(Its) : ("ioerr" \in DOMAIN Its[i]) <=> BadUtf8(file[i + Shift])

\* a well-formed row reads back exactly what it says
RoundTrip == mode = "one" =>
  \A c \in GoodCps, p \in GoodProps, d \in Descs :
     file[2].toks = Row(c, p, d) =>
        /\ "ok" \in DOMAIN Its[1]
        /\ Its[1].ok.cps = ParseCps(MCHexVal, c) /\ Its[1].ok.props = ParseProps(p).ps /\ Its[1].ok.desc = d
        /\ (c = <<"0041", "-", "005A">> => Its[1].ok.cps = [k |-> "R", s |-> 65, e |-> 90])
        /\ (p = <<"ID_DIS", " or ", "FREE_PVAL">> => Its[1].ok.props = <<"ID_DIS", "FREE_PVAL">>)
\* every corruption is reported as an error
CorruptionsRejected == mode = "one" => (file[2].toks \in BadRows => Its[1] = [err |-> 2])

Emit == PrintT(<<"REPLAY", ToJson([k |-> "csv", file |-> file, items |-> Its])>>)
=============================================================================
