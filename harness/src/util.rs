//! small shared helpers: JSON, PRNG, code point <-> string conversion

use serde_json::{json, Value};
use std::io::{BufRead, BufReader, Read};

pub fn cps_to_string(v: &Value) -> Option<String> {
    let arr = v.as_array()?;
    let mut s = String::new();
    for x in arr {
        s.push(char::from_u32(x.as_u64()? as u32)?);
    }
    Some(s)
}

pub fn string_to_cps(s: &str) -> Value {
    Value::Array(s.chars().map(|c| json!(c as u32)).collect())
}

pub fn vec_to_string(v: &[u32]) -> String {
    v.iter().map(|c| char::from_u32(*c).unwrap()).collect()
}

/// SplitMix64: tiny deterministic PRNG (no external crate)
pub struct Rng(pub u64);

impl Rng {
    pub fn new(seed: u64) -> Self {
        Rng(seed.wrapping_mul(0x9E3779B97F4A7C15).wrapping_add(0x1234_5678_9ABC_DEF1))
    }
    pub fn next(&mut self) -> u64 {
        self.0 = self.0.wrapping_add(0x9E3779B97F4A7C15);
        let mut z = self.0;
        z = (z ^ (z >> 30)).wrapping_mul(0xBF58476D1CE4E5B9);
        z = (z ^ (z >> 27)).wrapping_mul(0x94D049BB133111EB);
        z ^ (z >> 31)
    }
    pub fn below(&mut self, n: u64) -> u64 {
        if n == 0 {
            0
        } else {
            self.next() % n
        }
    }
    pub fn pick<'a, T>(&mut self, v: &'a [T]) -> &'a T {
        &v[self.below(v.len() as u64) as usize]
    }
    pub fn chance(&mut self, num: u64, den: u64) -> bool {
        self.below(den) < num
    }
}

/// iterate over the lines of a file or stdin ("-")
pub fn lines_of(path: &str) -> Box<dyn Iterator<Item = String>> {
    let rdr: Box<dyn Read> = if path == "-" {
        Box::new(std::io::stdin())
    } else {
        Box::new(std::fs::File::open(path).unwrap_or_else(|e| {
            eprintln!("TOOL-ERROR cannot open {}: {}", path, e);
            std::process::exit(2)
        }))
    };
    Box::new(BufReader::with_capacity(1 << 20, rdr).lines().map(|l| l.unwrap()))
}

pub fn tool_error(msg: &str) -> ! {
    eprintln!("TOOL-ERROR {}", msg);
    std::process::exit(2)
}

pub fn arg_value(args: &[String], name: &str) -> Option<String> {
    let mut it = args.iter();
    while let Some(a) = it.next() {
        if a == name {
            return it.next().cloned();
        }
        if let Some(rest) = a.strip_prefix(&format!("{}=", name)) {
            return Some(rest.to_string());
        }
    }
    None
}

pub fn arg_u64(args: &[String], name: &str, default: u64) -> u64 {
    arg_value(args, name).map(|v| v.parse().unwrap_or(default)).unwrap_or(default)
}
