----------------------------- MODULE MC_Compare -----------------------------
(***************************************************************************)
(* C07: every pair (and, inside the invariants, triple) of strings up to   *)
(* MaxLen over a generated alphabet; compare as equality of comparison     *)
(* forms: an equivalence on accepted strings with strict errors.           *)
(***************************************************************************)
EXTENDS Profiles, MiniUnicode, Json

CONSTANTS MaxLen, Profs

W == MiniW
WDev == [MiniW EXCEPT !.dev = {"bidi_nsm_strict"}]

VARIABLES a, b, side
vars == <<a, b, side>>

Init == a = <<>> /\ b = <<>> /\ side = "a"
BuildA(c) == side = "a" /\ Len(a) < MaxLen /\ a' = Append(a, c) /\ UNCHANGED <<b, side>>
Switch    == side = "a" /\ side' = "b" /\ UNCHANGED <<a, b>>
BuildB(c) == side = "b" /\ Len(b) < MaxLen /\ b' = Append(b, c) /\ UNCHANGED <<a, side>>
Next == Switch \/ \E c \in SigmaIn : BuildA(c) \/ BuildB(c)
Spec == Init /\ [][Next]_vars

RECURSIVE StringsUpTo(_)
StringsUpTo(n) == IF n = 0 THEN {<<>>} ELSE StringsUpTo(n - 1) \cup {Append(s, c) : s \in {t \in StringsUpTo(n - 1) : Len(t) = n - 1}, c \in SigmaIn}
AllStrings == StringsUpTo(MaxLen)

Pair == side = "b"
Acc(p, s) == IsOk(CompForm(W, p, s))
Eq(p, x, y) == Compare(W, p, x, y) = OkEq(TRUE)

\* result / first-error rule
ResultRule == Pair => \A p \in Profs :
  LET r == Compare(W, p, a, b) IN
    /\ (Acc(p, a) /\ Acc(p, b)) => r = OkEq(CompForm(W, p, a).ok = CompForm(W, p, b).ok)
    /\ ~Acc(p, a) => r = CompForm(W, p, a)
    /\ (Acc(p, a) /\ ~Acc(p, b)) => r = CompForm(W, p, b)

\* for the username and password profiles compare is equality of enforced forms
ViaEnforce == Pair => \A p \in Profs \ {"NICK"} :
  LET ea == Enforce(W, p, a)  eb == Enforce(W, p, b)  r == Compare(W, p, a, b) IN
    IF IsErr(ea) THEN r = ea ELSE IF IsErr(eb) THEN r = eb ELSE r = OkEq(ea.ok = eb.ok)

Reflexive  == Pair => \A p \in Profs : Acc(p, a) => Eq(p, a, a)
Symmetric  == Pair => \A p \in Profs : (Acc(p, a) /\ Acc(p, b)) => Compare(W, p, a, b) = Compare(W, p, b, a)
Transitive == Pair => \A p \in Profs : Eq(p, a, b) => \A c \in AllStrings : Eq(p, b, c) => Eq(p, a, c)

\* an enforced string compares equal to its source (enforcement is the comparison form's canonicalization),
\* for the three non-iterated profiles
EnforcedIsEquivalent == Pair => \A p \in Profs \ {"NICK"} : IsOk(Enforce(W, p, a)) => Eq(p, a, Enforce(W, p, a).ok)

Emit == Pair => \A p \in Profs :
  LET r == Compare(W, p, a, b)  d == Compare(WDev, p, a, b) IN
  PrintT(<<"REPLAY", ToJson(IF d = r THEN [k |-> "compare", p |-> p, a |-> a, b |-> b, res |-> r]
                            ELSE [k |-> "compare", p |-> p, a |-> a, b |-> b, res |-> r, devres |-> d])>>)
=============================================================================
