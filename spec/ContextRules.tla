---------------------------- MODULE ContextRules ----------------------------
(***************************************************************************)
(* RFC 5892 Appendix A contextual rules (precis-core/src/context.rs).      *)
(*                                                                         *)
(* Every rule is given twice:                                              *)
(*   D<rule>  the declarative, three-valued RFC formulation;               *)
(*   S<rule>  the implementation-shaped scan with its index register.      *)
(* A rule result is one of  [bool |-> TRUE/FALSE],                         *)
(*                          [cerr |-> "NotApplicable" / "Undefined"].      *)
(* W.u[c] gives the attributes of code point c:  vir (ccc = Virama),       *)
(* jt (joining type), sc (script).  off is the 0-based code-point offset   *)
(* the public functions take; it may lie anywhere in Nat.                  *)
(***************************************************************************)
EXTENDS Base

RTrue  == [bool |-> TRUE]
RFalse == [bool |-> FALSE]
RBool(b) == [bool |-> b]
RNotAppl == [cerr |-> "NotApplicable"]
RUndef   == [cerr |-> "Undefined"]

ZWNJ == 8204   \* U+200C
ZWJ  == 8205   \* U+200D
MIDDLE_DOT == 183        \* U+00B7
LATIN_L    == 108        \* U+006C
KERAIA     == 885        \* U+0375
GERESH     == 1523       \* U+05F3
GERSHAYIM  == 1524       \* U+05F4
KATAKANA_MIDDLE_DOT == 12539  \* U+30FB
ArabicIndic    == 1632..1641  \* U+0660..U+0669
ExtArabicIndic == 1776..1785  \* U+06F0..U+06F9

RuleNames == {"zwnj", "zwj", "middle_dot", "keraia", "hebrew", "katakana", "arabic_indic", "ext_arabic_indic"}

\* the code points a rule is "its own" for
Own(rule) ==
  CASE rule = "zwnj"       -> {ZWNJ}
    [] rule = "zwj"        -> {ZWJ}
    [] rule = "middle_dot" -> {MIDDLE_DOT}
    [] rule = "keraia"     -> {KERAIA}
    [] rule = "hebrew"     -> {GERESH, GERSHAYIM}
    [] rule = "katakana"   -> {KATAKANA_MIDDLE_DOT}
    [] rule = "arabic_indic"     -> ArabicIndic
    [] rule = "ext_arabic_indic" -> ExtArabicIndic

\* the registry (context.rs:260-272): rule registered for a code point, or ""
RuleOf(cp) ==
  IF cp = MIDDLE_DOT THEN "middle_dot"
  ELSE IF cp = ZWNJ THEN "zwnj"
  ELSE IF cp = ZWJ THEN "zwj"
  ELSE IF cp = KERAIA THEN "keraia"
  ELSE IF cp \in {GERESH, GERSHAYIM} THEN "hebrew"
  ELSE IF cp = KATAKANA_MIDDLE_DOT THEN "katakana"
  ELSE IF cp \in ArabicIndic THEN "arabic_indic"
  ELSE IF cp \in ExtArabicIndic THEN "ext_arabic_indic"
  ELSE ""

Vir(W, c) == W.u[c].vir
Jt(W, c)  == W.u[c].jt
Sc(W, c)  == W.u[c].sc
InScript(W, c, scripts) == Sc(W, c) \in scripts

\* ---------------------------------------------------------------------------
\* Declarative formulations.  p = off + 1 is the 1-based position.
\* "Before(cp)"/"After(cp)" are Undefined outside the label; any Undefined term
\* makes the rule Undefined (RFC 5892 Appendix A, introduction).
\* ---------------------------------------------------------------------------
Inside(s, off) == off < Len(s)

\* positions to the left / right of p holding a non-transparent character
LeftNonT(W, s, p)  == {i \in 1..(p - 1) : Jt(W, s[i]) # "T"}
RightNonT(W, s, p) == {j \in (p + 1)..Len(s) : Jt(W, s[j]) # "T"}
Max(S) == CHOOSE x \in S : \A y \in S : y <= x
Min(S) == CHOOSE x \in S : \A y \in S : x <= y

DZwnj(W, s, p) ==
  IF p = 1 THEN RUndef                                   \* Before(cp) outside the label
  ELSE IF Vir(W, s[p - 1]) THEN RTrue
  ELSE IF LeftNonT(W, s, p) = {} THEN RUndef             \* T* runs off the start of the label
  ELSE IF Jt(W, s[Max(LeftNonT(W, s, p))]) \notin {"L", "D"} THEN RFalse
  ELSE IF RightNonT(W, s, p) = {} THEN RUndef            \* After(cp) / T* runs off the end
  ELSE RBool(Jt(W, s[Min(RightNonT(W, s, p))]) \in {"R", "D"})

DZwj(W, s, p) == IF p = 1 THEN RUndef ELSE RBool(Vir(W, s[p - 1]))

DMiddleDot(W, s, p) ==
  IF p = 1 \/ p = Len(s) THEN RUndef
  ELSE RBool(s[p - 1] = LATIN_L /\ s[p + 1] = LATIN_L)

DKeraia(W, s, p) == IF p = Len(s) THEN RUndef ELSE RBool(InScript(W, s[p + 1], {"Greek"}))

DHebrew(W, s, p) == IF p = 1 THEN RUndef ELSE RBool(InScript(W, s[p - 1], {"Hebrew"}))

DKatakana(W, s, p) == RBool(\E i \in 1..Len(s) : InScript(W, s[i], {"Hiragana", "Katakana", "Han"}))

DArabicIndic(W, s, p)    == RBool(\A i \in 1..Len(s) : s[i] \notin ExtArabicIndic)
DExtArabicIndic(W, s, p) == RBool(\A i \in 1..Len(s) : s[i] \notin ArabicIndic)

DBody(W, rule, s, p) ==
  CASE rule = "zwnj"       -> DZwnj(W, s, p)
    [] rule = "zwj"        -> DZwj(W, s, p)
    [] rule = "middle_dot" -> DMiddleDot(W, s, p)
    [] rule = "keraia"     -> DKeraia(W, s, p)
    [] rule = "hebrew"     -> DHebrew(W, s, p)
    [] rule = "katakana"   -> DKatakana(W, s, p)
    [] rule = "arabic_indic"     -> DArabicIndic(W, s, p)
    [] rule = "ext_arabic_indic" -> DExtArabicIndic(W, s, p)

\* the public function rule_<name>(label, off), declaratively
DRule(W, rule, s, off) ==
  IF ~Inside(s, off) THEN RUndef
  ELSE IF s[off + 1] \notin Own(rule) THEN RNotAppl
  ELSE DBody(W, rule, s, off + 1)

\* ---------------------------------------------------------------------------
\* Implementation-shaped scans (context.rs:69-249).  Offsets are 0-based like
\* in the code; Nth(s, k) is s.chars().nth(k): "none" when outside.
\* ---------------------------------------------------------------------------
None == -1
Nth(s, k)    == IF k >= 0 /\ k < Len(s) THEN s[k + 1] ELSE None
After(s, k)  == Nth(s, k + 1)
Before(s, k) == IF k = 0 THEN None ELSE Nth(s, k - 1)

\* backward loop of rule_zero_width_nonjoiner: registers (cp, i)
RECURSIVE ScanBack(_, _, _, _)
ScanBack(W, s, cp, i) ==
  IF Jt(W, cp) = "T"
  THEN LET prev == Before(s, i) IN
         IF prev = None THEN [undef |-> TRUE] ELSE ScanBack(W, s, prev, i - 1)
  ELSE [undef |-> FALSE, cp |-> cp]

\* forward loop: registers (cp, i)
RECURSIVE ScanFwd(_, _, _, _)
ScanFwd(W, s, cp, i) ==
  IF Jt(W, cp) = "T"
  THEN LET next == After(s, i) IN
         IF next = None THEN [undef |-> TRUE] ELSE ScanFwd(W, s, next, i + 1)
  ELSE [undef |-> FALSE, cp |-> cp]

SZwnj(W, s, off) ==
  LET prev == Before(s, off) IN
  IF prev = None THEN RUndef
  ELSE IF Vir(W, prev) THEN RTrue
  ELSE LET b == ScanBack(W, s, prev, off - 1) IN
       IF b.undef THEN RUndef
       ELSE IF Jt(W, b.cp) \notin {"L", "D"} THEN RFalse
       ELSE LET next == After(s, off) IN
            IF next = None THEN RUndef
            ELSE LET f == ScanFwd(W, s, next, off + 1) IN
                 IF f.undef THEN RUndef ELSE RBool(Jt(W, f.cp) \in {"R", "D"})

SZwj(W, s, off) == LET prev == Before(s, off) IN IF prev = None THEN RUndef ELSE RBool(Vir(W, prev))

SMiddleDot(W, s, off) ==
  LET prev == Before(s, off) IN
  IF prev = None THEN RUndef
  ELSE LET next == After(s, off) IN
       IF next = None THEN RUndef ELSE RBool(prev = LATIN_L /\ next = LATIN_L)

SKeraia(W, s, off) == LET next == After(s, off) IN IF next = None THEN RUndef ELSE RBool(Sc(W, next) = "Greek")
SHebrew(W, s, off) == LET prev == Before(s, off) IN IF prev = None THEN RUndef ELSE RBool(Sc(W, prev) = "Hebrew")

\* for c in s.chars() { if ... return Ok(true) } Ok(false)
RECURSIVE AnyFrom(_, _, _)
AnyFrom(P(_), s, i) == IF i > Len(s) THEN FALSE ELSE IF P(s[i]) THEN TRUE ELSE AnyFrom(P, s, i + 1)

SKatakana(W, s, off) == RBool(AnyFrom(LAMBDA c : Sc(W, c) \in {"Hiragana", "Katakana", "Han"}, s, 1))
SArabicIndic(W, s, off)    == RBool(~AnyFrom(LAMBDA c : c \in ExtArabicIndic, s, 1))
SExtArabicIndic(W, s, off) == RBool(~AnyFrom(LAMBDA c : c \in ArabicIndic, s, 1))

SRule(W, rule, s, off) ==
  LET c == Nth(s, off) IN
  IF c = None THEN RUndef
  ELSE IF c \notin Own(rule) THEN RNotAppl
  ELSE CASE rule = "zwnj"       -> SZwnj(W, s, off)
         [] rule = "zwj"        -> SZwj(W, s, off)
         [] rule = "middle_dot" -> SMiddleDot(W, s, off)
         [] rule = "keraia"     -> SKeraia(W, s, off)
         [] rule = "hebrew"     -> SHebrew(W, s, off)
         [] rule = "katakana"   -> SKatakana(W, s, off)
         [] rule = "arabic_indic"     -> SArabicIndic(W, s, off)
         [] rule = "ext_arabic_indic" -> SExtArabicIndic(W, s, off)

\* the specification's meaning of rule_<name>(s, off) is the declarative one
Rule(W, rule, s, off) == DRule(W, rule, s, off)
=============================================================================
