-------------------------------- MODULE Precis --------------------------------
(***************************************************************************)
(* A library SESSION: threads calling the public API concurrently through  *)
(* its three forms                                                         *)
(*   "static"  PrecisFastInvocation: a lazy_static profile behind a Once   *)
(*   "inst"    a freshly constructed profile                               *)
(*   "long"    a long-lived profile owned by the thread                    *)
(* The profiles are stateless unit structs, so the only shared state is    *)
(* the Once cell of each static profile:  Uninit -> Running(t) -> Ready    *)
(* (precis-profiles/src/{usernames,passwords,nicknames}.rs,                *)
(* get_*_profile).  Results are SemOf[call]: a function of the arguments   *)
(* only; what that function is, is the business of Profiles.tla.           *)
(***************************************************************************)
EXTENDS Naturals, Sequences, FiniteSets, TLC

CONSTANTS Threads,       \* thread identifiers
          ProfilesC,     \* profiles that have a static instance
          Inputs,        \* abstract argument values
          Forms,         \* {"static", "inst", "long"}
          MaxCalls,      \* calls per thread
          SemOf          \* [ProfilesC \X Inputs -> results]

VARIABLES once,    \* once[p] = [st |-> "Uninit" | "Running" | "Ready", by |-> initializing thread or "none"]
          pc,      \* pc[t] \in {"idle", "deref", "init", "compute"}
          cur,     \* cur[t]: the call in progress  [p, x, form]
          done,    \* done[t]: number of completed calls
          log      \* history of completed calls with their results (hidden by the VIEW)
vars == <<once, pc, cur, done, log>>
View == <<once, pc, cur, done>>

NoCall == [p |-> "", x |-> "", form |-> ""]

Init == /\ once = [p \in ProfilesC |-> [st |-> "Uninit", by |-> "none"]]
        /\ pc = [t \in Threads |-> "idle"]
        /\ cur = [t \in Threads |-> NoCall]
        /\ done = [t \in Threads |-> 0]
        /\ log = <<>>

\* a thread enters a public function
Begin(t, p, x, form) ==
  /\ pc[t] = "idle" /\ done[t] < MaxCalls
  /\ cur' = [cur EXCEPT ![t] = [p |-> p, x |-> x, form |-> form]]
  /\ pc' = [pc EXCEPT ![t] = IF form = "static" THEN "deref" ELSE "compute"]
  /\ UNCHANGED <<once, done, log>>

\* first use of the static: this thread runs the initializer
OnceBegin(t) ==
  /\ pc[t] = "deref" /\ once[cur[t].p].st = "Uninit"
  /\ once' = [once EXCEPT ![cur[t].p] = [st |-> "Running", by |-> t]]
  /\ pc' = [pc EXCEPT ![t] = "init"]
  /\ UNCHANGED <<cur, done, log>>

OnceEnd(t) ==
  /\ pc[t] = "init"
  /\ once' = [once EXCEPT ![cur[t].p] = [st |-> "Ready", by |-> "none"]]
  /\ pc' = [pc EXCEPT ![t] = "compute"]
  /\ UNCHANGED <<cur, done, log>>

\* the static is ready (possibly after waiting for another thread's initializer)
OnceReady(t) ==
  /\ pc[t] = "deref" /\ once[cur[t].p].st = "Ready"
  /\ pc' = [pc EXCEPT ![t] = "compute"]
  /\ UNCHANGED <<once, cur, done, log>>

\* the function returns: the linearization point of the call
End(t) ==
  /\ pc[t] = "compute"
  /\ log' = Append(log, [t |-> t, call |-> cur[t], res |-> SemOf[<<cur[t].p, cur[t].x>>]])
  /\ done' = [done EXCEPT ![t] = @ + 1]
  /\ pc' = [pc EXCEPT ![t] = "idle"]
  /\ cur' = [cur EXCEPT ![t] = NoCall]
  /\ UNCHANGED once

Next == \E t \in Threads :
          \/ \E p \in ProfilesC, x \in Inputs, f \in Forms : Begin(t, p, x, f)
          \/ OnceBegin(t) \/ OnceEnd(t) \/ OnceReady(t) \/ End(t)

Fairness == \A t \in Threads : WF_vars(OnceBegin(t)) /\ WF_vars(OnceEnd(t)) /\ WF_vars(OnceReady(t)) /\ WF_vars(End(t))
Spec == Init /\ [][Next]_vars /\ Fairness

\* ---- C16 ---------------------------------------------------------------------------------
\* results depend only on the arguments: not on the form, the thread, the history or the Once state
ResultsDependOnlyOnArguments ==
  \A i \in 1..Len(log) : log[i].res = SemOf[<<log[i].call.p, log[i].call.x>>]
SameCallSameResult ==
  \A i, j \in 1..Len(log) : (log[i].call.p = log[j].call.p /\ log[i].call.x = log[j].call.x) => log[i].res = log[j].res

\* the Once cell: at most one initializer, nobody computes through a static that is not ready
OneInitializer == \A p \in ProfilesC : Cardinality({t \in Threads : pc[t] = "init" /\ cur[t].p = p}) <= 1
InitializerOwnsCell == \A t \in Threads : pc[t] = "init" => once[cur[t].p] = [st |-> "Running", by |-> t]
StaticOnlyWhenReady == \A t \in Threads : (pc[t] = "compute" /\ cur[t].form = "static") => once[cur[t].p].st = "Ready"
ReadyIsStable == [][\A p \in ProfilesC : once[p].st = "Ready" => once'[p].st = "Ready"]_vars

\* every call returns (no thread is stuck waiting for an initializer for ever)
EveryCallReturns == \A t \in Threads : (pc[t] # "idle") ~> (pc[t] = "idle")
=============================================================================
