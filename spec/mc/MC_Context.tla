----------------------------- MODULE MC_Context -----------------------------
(***************************************************************************)
(* C03 / C02: every label up to MaxLen over a generated alphabet of        *)
(* contextual characters and their relevant neighbours; every one of the   *)
(* public rule functions at every offset 0..Len+1 (inside and outside);    *)
(* the scan formulation against the declarative RFC 5892 formulation; the  *)
(* two standard string classes on every label.                             *)
(***************************************************************************)
EXTENDS StringClass, MiniUnicode, Json

CONSTANTS MaxLen, Rules

W == MiniW
VARIABLES input
vars == <<input>>

Init == input = <<>>
Build(c) == Len(input) < MaxLen /\ input' = Append(input, c)
Next == \E c \in SigmaIn : Build(c)
Spec == Init /\ [][Next]_vars

Offsets == 0..(Len(input) + 1)

\* the implementation-shaped scans decide exactly what the declarative formulation says
ScanEqualsDeclarative == \A r \in RuleNames, off \in Offsets : SRule(W, r, input, off) = DRule(W, r, input, off)

\* not-applicable only when the character at the position is not the rule's own;
\* undefined only when the position or a neighbour the rule must inspect is outside the label
NotApplOnlyForeign == \A r \in RuleNames, off \in Offsets :
  (DRule(W, r, input, off) = RNotAppl) <=> (off < Len(input) /\ input[off + 1] \notin Own(r))
UndefinedOnlyOutside == \A r \in RuleNames, off \in Offsets :
  (DRule(W, r, input, off) = RUndef) =>
     \/ off >= Len(input)                                                   \* the position itself
     \/ off = 0 /\ r \in {"zwnj", "zwj", "middle_dot", "hebrew"}            \* Before(cp)
     \/ off = Len(input) - 1 /\ r \in {"zwnj", "middle_dot", "keraia"}      \* After(cp)
     \/ r = "zwnj" /\ (LeftNonT(W, input, off + 1) = {} \/ RightNonT(W, input, off + 1) = {})   \* T* runs off the label

\* registry <=> derived property (over the characters of this alphabet)
RegistryMatchesProperty == \A c \in SigmaAll : (RuleOf(c) # "") <=> (W.u[c].idp \in {"CONTEXTJ", "CONTEXTO"})
RegisteredRuleApplies == \A c \in SigmaAll : RuleOf(c) # "" => c \in Own(RuleOf(c))

\* the standard classes never report a missing or inapplicable rule; the loop equals the declarative form
StdClassesSound == \A cls \in {"Id", "Ff"} :
  LET r == Allows(W, cls, input) IN
    /\ AllowsScan(W, cls, input) = r
    /\ IsErr(r) => r.err \in {"BadCodepoint", "Undefined"}

\* translation law, used to extend the binding to long labels and large offsets: padding a label in front with copies
\* of its first and behind with copies of its last character moves every rule result with the offset, for every
\* position that has both neighbours inside the label; and the standard classes decide a padded label as the label
\* (the reported position moves) when the first and last character are valid and not contextual themselves
Pad(s, i, j) == [x \in 1..i |-> s[1]] \o s \o [x \in 1..j |-> s[Len(s)]]
CtxPadLaw == (Len(input) >= 3) => \A r \in RuleNames, off \in 1..(Len(input) - 2), i \in 0..2, j \in 0..2 :
  DRule(W, r, Pad(input, i, j), off + i) = DRule(W, r, input, off)
Plain(c) == W.u[c].idp = "PVALID"
AllowsPadLaw == (input # <<>> /\ Plain(input[1]) /\ Plain(input[Len(input)])) => \A cls \in {"Id", "Ff"}, i \in 0..2, j \in 0..2 :
  LET r == Allows(W, cls, input)  rp == Allows(W, cls, Pad(input, i, j)) IN
    rp = (IF IsErr(r) /\ "pos" \in DOMAIN r THEN [r EXCEPT !.pos = @ + i] ELSE r)

Emit == /\ \A r \in Rules, off \in Offsets :
             PrintT(<<"REPLAY", ToJson([k |-> "ctx", rule |-> r, s |-> input, off |-> off, res |-> Rule(W, r, input, off)])>>)
        /\ \A cls \in {"Id", "Ff"} :
             PrintT(<<"REPLAY", ToJson([k |-> "allows", cls |-> cls, s |-> input, res |-> Allows(W, cls, input)])>>)
=============================================================================
