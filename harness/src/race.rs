//! C16 (schedules): "results do not depend on other threads calling the library at the same time, including during
//! first use".  The specification (Precis.tla) makes every call a function of its arguments; this driver checks the
//! implementation against that for volume, the way `SameCallSameResult` does in the model:
//!
//!  * the parent process (single-threaded, it never spawns a thread that calls the library) computes the reference
//!    result of every (profile, operation, input) once, sequentially.  The same inputs are recorded and judged by TLC
//!    through the L3 trace (lib/props.py), so the reference itself is bound to the specification;
//!  * many FRESH child processes are started; in each, T threads are released by a barrier and make their very first
//!    library calls at the same time, on inputs of different scripts (each thread starts at a different input, the
//!    start moves with the process index), then keep calling in different rotations;
//!  * every result that differs from the reference is reported with thread, process and position in the history.
//!
//! Sound by construction: on a library whose results are a function of the arguments nothing is ever reported.

use crate::api::*;
use crate::oracle::Oracle;
use crate::record::Pools;
use crate::util::*;
use serde_json::{json, Value};
use std::collections::HashMap;
use std::sync::{Arc, Barrier};

const OPS: [&str; 5] = ["enforce", "prepare", "compare", "allowsId", "allowsFf"];
const FORMS: [&str; 3] = ["static", "inst", "long"];

const FIXED: [&str; 44] = [
    "\u{5d0}\u{5d1}\u{5d2}\u{5d3}", "\u{5d0}\u{5d1}1", "\u{627}\u{628}\u{62a}", "\u{627}\u{628}\u{661}\u{662}", "\u{627}\u{64e}\u{628}",
    "abc123", "a-b.c", "user_01", "x1y2z3", "2024-10-04", "a+b=c", "\u{3b1}\u{3b2}\u{3b3}", "\u{391}\u{3a3}",
    "\u{ff71}\u{ff72}\u{ff73}", "\u{ff66}\u{ff9f}", "\u{ffe0}\u{ffe1}", "\u{ffe8}\u{ffee}", "\u{ffa1}\u{ffc2}", "\u{ff21}\u{ff22}\u{ff11}", "\u{ff5f}\u{ff60}", "\u{3000}a",
    "\u{430}\u{431}\u{432}", "\u{65e5}\u{672c}\u{8a9e}", "\u{30ab}\u{30fb}\u{30bf}", "\u{e9}t\u{e9}", "e\u{301}", "Foo Bar", " a  b ", "correct horse battery",
    "\u{2163}", "\u{b5}m", "\u{130}x", "\u{13a0}\u{13a1}", "",
    // labels whose context rules hold (tables and caches behind the rules are reached only by accepted labels)
    "\u{645}\u{6cc}\u{200c}\u{62e}\u{648}\u{627}\u{647}\u{645}", "\u{628}\u{64e}\u{200c}\u{650}\u{62a}", "\u{915}\u{94d}\u{200d}\u{937}", "l\u{b7}l", "\u{3b1}\u{375}\u{3b2}",
    "\u{5d0}\u{5f3}", "\u{5d0}\u{5f4}\u{5d1}", "\u{661}\u{662}\u{627}", "\u{6f1}\u{6f2}\u{627}", "\u{30ab}\u{30fb}\u{65e5}",
];

fn build_inputs(o: &Oracle, seed: u64) -> Vec<String> {
    let pools = Pools::new(o);
    let mut rng = Rng::new(seed);
    let mut v: Vec<String> = FIXED.iter().map(|s| s.to_string()).collect();
    let by_name = |n: &str| pools.pools.iter().position(|p| p.0 == n);
    let mut themed = |rng: &mut Rng, idx: &[usize], len: u64| -> String {
        let mut s = String::new();
        for _ in 0..len {
            let p = &pools.pools[*rng.pick(idx)];
            if let Some(c) = char::from_u32(*rng.pick(&p.2)) {
                s.push(c);
            }
        }
        s
    };
    // single-script labels: one pool each
    for i in 0..pools.pools.len() {
        for _ in 0..2 {
            let len = 2 + rng.below(6);
            v.push(themed(&mut rng, &[i], len));
        }
    }
    // pairs of pools that make valid labels of different directions / mapping paths
    for (a, b) in [
        ("ascii_lower", "ascii_digit"), ("ascii_lower", "ascii_punct"), ("rtl_letters", "an_en"), ("rtl_letters", "marks"),
        ("rtl_letters", "ascii_digit"), ("width", "kana_han"), ("width", "ascii_lower"), ("width", "width"), ("cased", "space"),
        ("greek_hebrew", "ascii_digit"), ("precomposed", "marks"), ("compat", "ascii_lower"), ("hangul", "width"),
    ] {
        if let (Some(x), Some(y)) = (by_name(a), by_name(b)) {
            for _ in 0..3 {
                let len = 3 + rng.below(6);
                v.push(themed(&mut rng, &[x, y], len));
            }
        }
    }
    // inputs of 256 bytes and more that are not normalized (size-dependent paths: scratch buffers, chunked processing)
    for (tag, unit, n) in [("u0", "a\u{301}e\u{308}o\u{302}", 60usize), ("u1", "u\u{30b}n\u{303}c\u{327}", 70), ("u2", "\u{212b}\u{2126}k", 90),
                           ("n3", "\u{2163}\u{fb01}", 80), ("p4", "x \u{3000}y\u{e9}", 64), ("w5", "\u{ff21}\u{ff42}\u{ff71}", 100)] {
        v.push(format!("{}{}", tag, unit.repeat(n)));
        // a prefix of it: compare(prefix, whole) is asked with views of one buffer
        v.push(format!("{}{}", tag, unit.repeat(n / 2)));
    }
    v.sort();
    v.dedup();
    // a seeded shuffle so that neighbours in the list are of different kinds
    for i in (1..v.len()).rev() {
        let j = rng.below(i as u64 + 1) as usize;
        v.swap(i, j);
    }
    v
}

fn key(p: &str, op: &str, i: usize) -> String {
    format!("{}/{}/{}", p, op, i)
}

fn call(p: &str, op: &str, form: &str, kind: ArgKind, inputs: &[String], i: usize) -> Value {
    // the string classes directly (the profile name only multiplies the number of calls)
    if op == "allowsId" || op == "allowsFf" {
        return call_allows(&op[6..], &inputs[i]);
    }
    let args: Vec<String> = if op == "compare" {
        if i % 3 == 0 && inputs[i].chars().count() >= 2 {
            // a proper prefix of the first operand (passed as a view of the same buffer by the borrowed argument kinds)
            let half: String = inputs[i].chars().take(inputs[i].chars().count() / 2).collect();
            vec![inputs[i].clone(), half]
        } else {
            vec![inputs[i].clone(), inputs[(i + 1) % inputs.len()].clone()]
        }
    } else {
        vec![inputs[i].clone()]
    };
    // compare: a borrowed kind passes views of one buffer when one operand contains the other

    call_profile_full(p, form, op, kind, &args).0
}

fn child(args: &[String]) {
    silence_panics();
    let dir = arg_value(args, "--dir").unwrap_or_else(|| tool_error("--dir"));
    let n_threads = arg_u64(args, "--threads", 16) as usize;
    let passes = arg_u64(args, "--passes", 1) as usize;
    let index = arg_u64(args, "--index", 0) as usize;
    let inputs: Vec<String> = lines_of(&format!("{}/inputs.ndjson", dir))
        .map(|l| cps_to_string(&serde_json::from_str::<Value>(&l).unwrap_or_else(|_| tool_error("inputs"))).unwrap_or_else(|| tool_error("inputs")))
        .collect();
    let reference: HashMap<String, Value> =
        serde_json::from_str(&std::fs::read_to_string(format!("{}/reference.json", dir)).unwrap_or_else(|e| tool_error(&e.to_string())))
            .unwrap_or_else(|_| tool_error("reference"));
    let inputs = Arc::new(inputs);
    let reference = Arc::new(reference);
    let barrier = Arc::new(Barrier::new(n_threads));
    let mut hs = Vec::new();
    for t in 0..n_threads {
        let (inputs, reference, barrier) = (inputs.clone(), reference.clone(), barrier.clone());
        hs.push(std::thread::spawn(move || {
            silence_panics();
            let n = inputs.len();
            // a stride co-prime to n, different per thread; the start moves with the thread and the process
            let mut stride = 1 + 2 * t + (index % 5);
            while gcd(stride, n) != 1 {
                stride += 1;
            }
            let start = (t * n / n_threads + index * 7) % n;
            let mut bad: Vec<Value> = Vec::new();
            let mut calls = 0u64;
            barrier.wait();
            // the very first call of EVERY thread is made on the same input (it moves with the process index), through
            // different profiles and forms: whatever that input initializes lazily is initialized under a race of all threads
            {
                let i = index % n;
                let p = PROFILES[t % 4];
                let op = OPS[(t / 4) % 2];
                let form = FORMS[t % 3];
                let got = call(p, op, form, ARG_KINDS[t % ARG_KINDS.len()].1, &inputs, i);
                calls += 1;
                if Some(&got) != reference.get(&key(p, op, i)) {
                    bad.push(json!({"thread": t, "process": index, "first_call_of_every_thread": true, "profile": p, "op": op, "form": form,
                                    "input": string_to_cps(&inputs[i]), "sequential": reference.get(&key(p, op, i)), "concurrent": got}));
                }
            }
            for pass in 0..passes {
                let mut i = start;
                for step in 0..n {
                    for (pi, p) in PROFILES.iter().enumerate() {
                        // the very first calls of a thread go to the username profiles (the others are reached a moment later)
                        let p = if pass == 0 && step == 0 { PROFILES[(pi + t) % 2] } else { *p };
                        for (oi, op) in OPS.iter().enumerate() {
                            let form = FORMS[(t + pass + step + pi + oi) % 3];
                            let kind = ARG_KINDS[(t + step + oi) % ARG_KINDS.len()].1;
                            let got = call(p, op, form, kind, &inputs, i);
                            calls += 1;
                            if Some(&got) != reference.get(&key(p, op, i)) && bad.len() < 20 {
                                bad.push(json!({"thread": t, "process": index, "pass": pass, "call_no": calls, "profile": p, "op": op, "form": form,
                                                "input": string_to_cps(&inputs[i]), "second": if *op == "compare" { json!("the next input, or the first half of this one when its index is a multiple of 3") } else { Value::Null },
                                                "sequential": reference.get(&key(p, op, i)), "concurrent": got}));
                            }
                        }
                    }
                    i = (i + stride) % n;
                }
            }
            (bad, calls)
        }));
    }
    let mut bad = Vec::new();
    let mut calls = 0u64;
    for h in hs {
        let (b, c) = h.join().unwrap_or_else(|_| tool_error("race thread died"));
        bad.extend(b);
        calls += c;
    }
    println!("{}", json!({"calls": calls, "bad": bad}));
}

fn gcd(a: usize, b: usize) -> usize {
    if b == 0 { a } else { gcd(b, a % b) }
}

pub fn main(args: &[String]) {
    if args.iter().any(|a| a == "--child") {
        return child(args);
    }
    silence_panics();
    let db = arg_value(args, "--oracle").unwrap_or_else(|| tool_error("--oracle"));
    let dir = arg_value(args, "--dir").unwrap_or_else(|| tool_error("--dir"));
    let seed = arg_u64(args, "--seed", 1);
    let processes = arg_u64(args, "--processes", 100);
    let long_processes = arg_u64(args, "--long-processes", 4);
    let threads = arg_u64(args, "--threads", 16);
    let o = Oracle::load(&db);
    let inputs = build_inputs(&o, seed);
    std::fs::create_dir_all(&dir).ok();
    std::fs::write(format!("{}/inputs.ndjson", dir), inputs.iter().map(|s| string_to_cps(s).to_string() + "\n").collect::<String>())
        .unwrap_or_else(|e| tool_error(&e.to_string()));
    if args.iter().any(|a| a == "--inputs-only") {
        println!("{}", json!({"inputs": inputs.len()}));
        return;
    }
    // sequential reference, on this thread only; asked twice in different orders (a difference here is history dependence)
    let mut reference: HashMap<String, Value> = HashMap::new();
    let mut problems: Vec<Value> = Vec::new();
    for i in 0..inputs.len() {
        for p in PROFILES.iter() {
            for op in OPS.iter() {
                reference.insert(key(p, op, i), call(p, op, "inst", ArgKind::Owned, &inputs, i));
            }
        }
    }
    for i in (0..inputs.len()).rev() {
        for op in OPS.iter() {
            for p in PROFILES.iter() {
                let again = call(p, op, "static", ArgKind::Str, &inputs, i);
                if Some(&again) != reference.get(&key(p, op, i)) && problems.len() < 20 {
                    problems.push(json!({"sequential_history": true, "profile": p, "op": op, "input": string_to_cps(&inputs[i]),
                                         "first": reference.get(&key(p, op, i)), "again": again}));
                }
            }
        }
    }
    std::fs::write(format!("{}/reference.json", dir), serde_json::to_string(&reference).unwrap()).unwrap_or_else(|e| tool_error(&e.to_string()));
    let exe = std::env::current_exe().unwrap_or_else(|e| tool_error(&e.to_string()));
    let mut calls = 0u64;
    let mut run = |index: u64, passes: u64| {
        let out = std::process::Command::new(&exe)
            .args(["race", "--child", "--dir", &dir, "--threads", &threads.to_string(), "--passes", &passes.to_string(), "--index", &index.to_string()])
            .output()
            .unwrap_or_else(|e| tool_error(&e.to_string()));
        if !out.status.success() {
            tool_error(&format!("race child failed: {}", String::from_utf8_lossy(&out.stderr)));
        }
        let text = String::from_utf8_lossy(&out.stdout);
        let last = text.split('\n').filter(|l| !l.is_empty()).last().unwrap_or("");
        let v: Value = serde_json::from_str(last).unwrap_or_else(|_| tool_error("race child output"));
        calls += v["calls"].as_u64().unwrap_or(0);
        for b in v["bad"].as_array().cloned().unwrap_or_default() {
            if problems.len() < 40 {
                problems.push(b);
            }
        }
    };
    for i in 0..processes {
        run(i, 1);
    }
    for i in 0..long_processes {
        run(processes + i, 25);
    }
    std::fs::remove_file(format!("{}/reference.json", dir)).ok();
    for p in problems.iter() {
        println!("{}", json!({ "problem": p }));
    }
    println!("{}", json!({"summary": {"inputs": inputs.len(), "reference_calls": reference.len() * 2, "processes": processes + long_processes,
                                      "threads": threads, "concurrent_calls": calls, "problems": problems.len()}}));
}
