//! C16: results do not depend on which calls were made before.  Classification of every scalar value
//! (both classes, both entry points) is repeated in several ORDERS on one thread and on several
//! threads; each answer is compared with the baseline of the plain ascending sweep.  A cache or
//! memo keyed on partial information (truncated code point, last character, ...) shows up as a
//! difference in one of the orders.

use crate::api::*;
use crate::util::*;
use serde_json::json;

fn classify(cp: u32) -> [&'static str; 4] {
    let c = char::from_u32(cp);
    [
        class_value_g("Id", cp),
        class_value_g("Ff", cp),
        c.map(|c| class_value_char("Id", c)).unwrap_or("-"),
        c.map(|c| class_value_char("Ff", c)).unwrap_or("-"),
    ]
}

/// one lookup through one entry point
fn one(entry: usize, cp: u32) -> &'static str {
    match entry {
        0 => class_value_g("Id", cp),
        1 => class_value_g("Ff", cp),
        2 => char::from_u32(cp).map(|c| class_value_char("Id", c)).unwrap_or("-"),
        _ => char::from_u32(cp).map(|c| class_value_char("Ff", c)).unwrap_or("-"),
    }
}

const NAMES: [&str; 9] = ["PVALID", "SPEC_PVAL", "SPEC_DIS", "CONTEXTJ", "CONTEXTO", "DISALLOWED", "UNASSIGNED", "-", "PANIC"];

fn name_index(s: &str) -> u8 {
    NAMES.iter().position(|n| *n == s).unwrap_or(8) as u8
}

/// fresh process: T threads walk the SAME code points at the same time (spin barrier every 8 code points), so that the
/// very first lookups of every code point in the process race with one another; every answer is compared with the
/// baseline the (single-threaded) parent wrote
fn lockstep_child(args: &[String]) {
    use std::sync::atomic::{AtomicUsize, Ordering};
    use std::sync::Arc;
    silence_panics();
    let path = arg_value(args, "--baseline").unwrap_or_else(|| tool_error("--baseline"));
    let base = Arc::new(std::fs::read(&path).unwrap_or_else(|e| tool_error(&e.to_string())));
    let n_threads = arg_u64(args, "--threads", 8) as usize;
    let rot = arg_u64(args, "--rotation", 0) as u32;
    let n: u32 = 0x110000;
    let count = Arc::new(AtomicUsize::new(0));
    let gen = Arc::new(AtomicUsize::new(0));
    let mut hs = Vec::new();
    for t in 0..n_threads {
        let (base, count, gen) = (base.clone(), count.clone(), gen.clone());
        hs.push(std::thread::spawn(move || {
            silence_panics();
            let mut bad = Vec::new();
            let mut block = 0u32;
            let mut cp0 = 0u32;
            while cp0 < n {
                // spin barrier
                let g = gen.load(Ordering::Acquire);
                if count.fetch_add(1, Ordering::AcqRel) + 1 == n_threads {
                    count.store(0, Ordering::Relaxed);
                    gen.fetch_add(1, Ordering::Release);
                } else {
                    let mut spins = 0u32;
                    while gen.load(Ordering::Acquire) == g {
                        std::hint::spin_loop();
                        spins += 1;
                        if spins > 2000 {
                            // a descheduled thread must not stall the others for a time slice each
                            std::thread::yield_now();
                        }
                    }
                }
                for k in 0..8u32 {
                    // the block is walked from a different end by odd threads
                    let cp = (cp0 + if t % 2 == 0 { k } else { 7 - k } + rot * 0x8000) % n;
                    let e = ((t as u32 + block) % 4) as usize;
                    let got = name_index(one(e, cp));
                    if got != base[cp as usize * 4 + e] && bad.len() < 10 {
                        bad.push(json!({"order": "lockstep first lookups", "thread": t, "entry": e, "cp": cp, "baseline": NAMES[base[cp as usize * 4 + e] as usize], "got": NAMES[got as usize]}));
                    }
                }
                cp0 += 8;
                block += 1;
            }
            bad
        }));
    }
    let mut problems = Vec::new();
    for h in hs {
        problems.extend(h.join().unwrap_or_else(|_| tool_error("lockstep thread died")));
    }
    println!("{}", json!({ "lockstep": problems }));
}

pub fn main(args: &[String]) {
    if args.iter().any(|a| a == "--lockstep-child") {
        return lockstep_child(args);
    }
    silence_panics();
    let seed = arg_u64(args, "--seed", 1);
    let n: u32 = 0x110000;
    let baseline: Vec<[&'static str; 4]> = (0..n).map(classify).collect();
    let mut problems = Vec::new();
    let mut calls = 0u64;
    let mut check = |order: &str, cp: u32, problems: &mut Vec<serde_json::Value>| {
        let got = classify(cp);
        if got != baseline[cp as usize] && problems.len() < 50 {
            problems.push(json!({"order": order, "cp": cp, "baseline": baseline[cp as usize], "got": got}));
        }
    };
    // descending
    for cp in (0..n).rev() {
        check("descending", cp, &mut problems);
        calls += 4;
    }
    // plane-interleaved: consecutive calls differ by a multiple of 0x10000
    for low in 0..0x10000u32 {
        for plane in 0..17u32 {
            check("stride 0x10000", (plane << 16) | low, &mut problems);
            calls += 4;
        }
    }
    // stride 0x100 and 0x1000
    for stride in [0x100u32, 0x1000] {
        for off in 0..stride {
            let mut cp = off;
            while cp < n {
                check(if stride == 0x100 { "stride 0x100" } else { "stride 0x1000" }, cp, &mut problems);
                calls += 4;
                cp += stride;
            }
        }
    }
    // the same code point twice in a row with the classes alternating, and a seeded random order
    let mut rng = Rng::new(seed);
    for _ in 0..2_000_000u32 {
        let cp = rng.below(n as u64) as u32;
        check("random", cp, &mut problems);
        calls += 4;
    }
    // ONE lookup per visit (the orders above make four per code point, which hides state that flips with every
    // lookup): each entry point alone ascending, then seeded random (entry, code point) pairs, then a code point asked
    // once or three times through one entry followed by other code points through another
    for e in 0..4usize {
        for cp in 0..n {
            let got = one(e, cp);
            calls += 1;
            if got != baseline[cp as usize][e] && problems.len() < 50 {
                problems.push(json!({"order": "single entry ascending", "entry": e, "cp": cp, "baseline": baseline[cp as usize][e], "got": got}));
            }
        }
    }
    for _ in 0..4_000_000u32 {
        let cp = rng.below(n as u64) as u32;
        let e = rng.below(4) as usize;
        let got = one(e, cp);
        calls += 1;
        if got != baseline[cp as usize][e] && problems.len() < 50 {
            problems.push(json!({"order": "single random", "entry": e, "cp": cp, "baseline": baseline[cp as usize][e], "got": got}));
        }
    }
    for i in 0..1_000_000u32 {
        let cp = if i % 2 == 0 { rng.below(0x3400) as u32 } else { rng.below(n as u64) as u32 };
        let e = rng.below(4) as usize;
        for _ in 0..(1 + 2 * rng.below(2)) {
            let _ = one(e, cp);
            calls += 1;
        }
        for d in [1u32, 0x61, 0x4e00, 0xe000, 0x2028] {
            let q = if d == 1 { (cp + 1) % n } else { d };
            let e2 = rng.below(4) as usize;
            let got = one(e2, q);
            calls += 1;
            if got != baseline[q as usize][e2] && problems.len() < 50 {
                problems.push(json!({"order": "after odd repeats", "prev": cp, "entry": e2, "cp": q, "baseline": baseline[q as usize][e2], "got": got}));
            }
        }
    }
    // aliases INSIDE the code space: a code point asked right after (and right before) the code points that share its low
    // 8 / 16 / 20 bits - a cache whose tag or index is a truncated code point answers one with the other's value
    for cp in 0..n {
        let e = (cp % 4) as usize;
        for other in [cp & 0xff, cp & 0xffff, cp & 0xfffff, (cp & 0xffff) | 0x100000, (cp & 0xffff) | 0x10000, cp ^ 0x100000, cp ^ 0x10000] {
            if other == cp || other >= n {
                continue;
            }
            for (first, second) in [(other, cp), (cp, other)] {
                let _ = one(e, first);
                let got = one(e, second);
                calls += 2;
                if got != baseline[second as usize][e] && problems.len() < 50 {
                    problems.push(json!({"order": "after a code point with the same low bits", "prev": first, "entry": e, "cp": second,
                                         "baseline": baseline[second as usize][e], "got": got}));
                }
            }
        }
    }
    // values above U+10FFFF that alias a real code point when high bits are truncated: asked right after the
    // code point itself; they are not scalar values, so both classes must answer DISALLOWED
    let mut alias_calls = 0u64;
    for cp in 0..n {
        for off in [0x0011_0000u32, 0x0020_0000, 0x0100_0000, 0x8000_0000, 0xFF00_0000, 0xFFE0_0000] {
            let v = cp.wrapping_add(off);
            if v < n {
                continue;
            }
            // the real code point is (re-)asked immediately before each of its aliases
            let _ = classify(cp);
            alias_calls += 1;
            let got = [class_value_g("Id", v), class_value_g("Ff", v)];
            if got != ["DISALLOWED", "DISALLOWED"] && problems.len() < 50 {
                problems.push(json!({"order": "alias above U+10FFFF", "cp": cp, "value": v, "got": got}));
            }
        }
    }
    calls += alias_calls * 2;
    // fresh processes whose threads make the first lookups of every code point at the same time
    let mut lockstep_runs = 0u64;
    if let Some(dir) = arg_value(args, "--scratch") {
        std::fs::create_dir_all(&dir).ok();
        let path = format!("{}/baseline.bin", dir);
        let mut bytes = Vec::with_capacity(n as usize * 4);
        for b in baseline.iter() {
            for e in 0..4 {
                bytes.push(name_index(b[e]));
            }
        }
        std::fs::write(&path, &bytes).unwrap_or_else(|e| tool_error(&e.to_string()));
        let exe = std::env::current_exe().unwrap_or_else(|e| tool_error(&e.to_string()));
        for r in 0..arg_u64(args, "--lockstep", 3) {
            let threads = [8u64, 4, 16][(r % 3) as usize];
            let out = std::process::Command::new(&exe)
                .args(["ordersweep", "--lockstep-child", "--baseline", &path, "--threads", &threads.to_string(), "--rotation", &r.to_string()])
                .output()
                .unwrap_or_else(|e| tool_error(&e.to_string()));
            if !out.status.success() {
                tool_error(&format!("lockstep child failed: {}", String::from_utf8_lossy(&out.stderr)));
            }
            let text = String::from_utf8_lossy(&out.stdout);
            let last = text.split('\n').filter(|l| !l.is_empty()).last().unwrap_or("");
            let v: serde_json::Value = serde_json::from_str(last).unwrap_or_else(|_| tool_error("lockstep child output"));
            for p in v["lockstep"].as_array().cloned().unwrap_or_default() {
                if problems.len() < 50 {
                    problems.push(p);
                }
            }
            calls += n as u64 * threads;
            lockstep_runs += 1;
        }
        std::fs::remove_file(&path).ok();
    }
    // several threads classifying concurrently in different orders
    let base = std::sync::Arc::new(baseline);
    let mut hs = Vec::new();
    for t in 0..8u32 {
        let base = base.clone();
        hs.push(std::thread::spawn(move || {
            silence_panics();
            let mut bad = Vec::new();
            let mut cp = (t * 7919) % n;
            for _ in 0..n {
                let got = classify(cp);
                if got != base[cp as usize] && bad.len() < 10 {
                    bad.push(json!({"order": format!("thread {} stride", t), "cp": cp, "baseline": base[cp as usize], "got": got}));
                }
                cp = (cp + 0x10000 + t * 2 + 1) % n;
            }
            bad
        }));
    }
    for h in hs {
        problems.extend(h.join().unwrap_or_else(|_| tool_error("ordersweep thread died")));
        calls += 4 * n as u64;
    }
    for p in problems.iter() {
        println!("{}", json!({ "problem": p }));
    }
    println!("{}", json!({"summary": {"calls": calls, "orders": 11, "lockstep_processes": lockstep_runs, "problems": problems.len()}}));
}
