"""Independent oracle: our own parser of the pinned UCD copies in /verif/data.

Nothing here reads /repo.  The output is an "oracle database": for every attribute the
library's behaviour depends on, a run-compressed table over 0..=0x10FFFF.

Attributes (see DESIGN.md 2.1):
  6.3.0 : gc, ccc==9 (virama), script in {Greek,Hebrew,Hiragana,Katakana,Han}, joining type,
          Join_Control, Noncharacter_Code_Point, Default_Ignorable_Code_Point,
          Hangul_Syllable_Type in {L,V,T}, HasCompat (unicodedata NFKC, assigned code points only)
          -> category signature -> (via the RFC 8264 decision list, evaluated by TLC, and for
          convenience also here) derived property
  16.0.0: gc==Zs, <wide>/<narrow> decomposition target, Bidi_Class, assigned, simple lowercase
"""
import hashlib
import json
import os
import unicodedata

N = 0x110000
DATA = os.environ.get("VERIF_DATA") or os.path.join(os.path.dirname(os.path.abspath(__file__)), "..", "data")

# RFC 8264 section 9.6 / RFC 5892 section 2.6 (transcribed from the RFC text)
EXCEPTIONS = {}
for _cp in (0x00DF, 0x03C2, 0x06FD, 0x06FE, 0x0F0B, 0x3007):
    EXCEPTIONS[_cp] = "PVALID"
for _cp in [0x00B7, 0x0375, 0x05F3, 0x05F4, 0x30FB] + list(range(0x0660, 0x066A)) + list(range(0x06F0, 0x06FA)):
    EXCEPTIONS[_cp] = "CONTEXTO"
for _cp in [0x0640, 0x07FA, 0x302E, 0x302F, 0x3031, 0x3032, 0x3033, 0x3034, 0x3035, 0x303B]:
    EXCEPTIONS[_cp] = "DISALLOWED"

# bit positions of the category signature (order = RFC 8264 section 8 decision list, after
# Exceptions and BackwardCompatible which are carried separately)
SIG_BITS = ["unas", "ascii7", "jc", "jamo", "ign", "ctrl", "compat", "ld", "old", "space", "sym", "punct"]

BIDI_CLASSES = ["AL", "AN", "B", "BN", "CS", "EN", "ES", "ET", "FSI", "L", "LRE", "LRI", "LRO", "NSM",
                "ON", "PDF", "PDI", "R", "RLE", "RLI", "RLO", "S", "WS"]


def check_pins():
    """verify the pinned copies against SHA256SUMS; returns the digest of the sums file"""
    sums = os.path.join(DATA, "SHA256SUMS")
    if os.environ.get("VERIF_DATA"):
        return "perturbed-data"
    for line in open(sums):
        h, rel = line.split()
        with open(os.path.join(DATA, rel), "rb") as f:
            got = hashlib.sha256(f.read()).hexdigest()
        if got != h:
            raise RuntimeError("pinned data file modified: %s" % rel)
    return hashlib.sha256(open(sums, "rb").read()).hexdigest()


def parse_unicode_data(path):
    """returns list of (lo, hi, fields) with First/Last folded"""
    out = []
    first = None
    for line in open(path, encoding="utf-8"):
        line = line.rstrip("\n")
        if not line:
            continue
        f = line.split(";")
        cp = int(f[0], 16)
        name = f[1]
        if name.endswith(", First>"):
            first = cp
            continue
        if name.endswith(", Last>"):
            assert first is not None
            out.append((first, cp, f))
            first = None
            continue
        assert first is None
        out.append((cp, cp, f))
    return out


def parse_prop_file(path):
    """returns list of (lo, hi, value) for files of the form 'XXXX[..YYYY] ; Value # comment'"""
    out = []
    for line in open(path, encoding="utf-8"):
        line = line.split("#", 1)[0].strip()
        if not line:
            continue
        parts = [p.strip() for p in line.split(";")]
        rng, val = parts[0], parts[1]
        if ".." in rng:
            a, b = rng.split("..")
            out.append((int(a, 16), int(b, 16), val))
        else:
            out.append((int(rng, 16), int(rng, 16), val))
    return out


class Oracle:
    def __init__(self):
        d63 = os.path.join(DATA, "ucd-6.3.0")
        d16 = os.path.join(DATA, "ucd-16.0.0")
        self.gc63 = ["Cn"] * N
        self.ccc63 = bytearray(N)
        for lo, hi, f in parse_unicode_data(os.path.join(d63, "UnicodeData.txt")):
            for cp in range(lo, hi + 1):
                self.gc63[cp] = f[2]
                self.ccc63[cp] = int(f[3])
        self.script = [None] * N
        for lo, hi, v in parse_prop_file(os.path.join(d63, "Scripts.txt")):
            if v in ("Greek", "Hebrew", "Hiragana", "Katakana", "Han"):
                for cp in range(lo, hi + 1):
                    self.script[cp] = v
        self.jt = ["U"] * N
        for lo, hi, v in parse_prop_file(os.path.join(d63, "extracted", "DerivedJoiningType.txt")):
            for cp in range(lo, hi + 1):
                self.jt[cp] = v
        self.joinctl = bytearray(N)
        self.nonchar = bytearray(N)
        for lo, hi, v in parse_prop_file(os.path.join(d63, "PropList.txt")):
            if v == "Join_Control":
                for cp in range(lo, hi + 1):
                    self.joinctl[cp] = 1
            elif v == "Noncharacter_Code_Point":
                for cp in range(lo, hi + 1):
                    self.nonchar[cp] = 1
        self.dicp = bytearray(N)
        for lo, hi, v in parse_prop_file(os.path.join(d63, "DerivedCoreProperties.txt")):
            if v == "Default_Ignorable_Code_Point":
                for cp in range(lo, hi + 1):
                    self.dicp[cp] = 1
        self.hst = bytearray(N)
        for lo, hi, v in parse_prop_file(os.path.join(d63, "HangulSyllableType.txt")):
            if v in ("L", "V", "T"):
                for cp in range(lo, hi + 1):
                    self.hst[cp] = 1
        # 16.0.0
        self.gc16 = ["Cn"] * N
        self.bidi16 = ["L"] * N   # DerivedBidiClass default used by the library: L for unlisted
        self.assigned16 = bytearray(N)
        self.wm16 = {}
        self.lower16 = {}
        for lo, hi, f in parse_unicode_data(os.path.join(d16, "UnicodeData.txt")):
            dec = f[5]
            for cp in range(lo, hi + 1):
                self.gc16[cp] = f[2]
                self.bidi16[cp] = f[4]
                self.assigned16[cp] = 1
            if dec.startswith("<wide>") or dec.startswith("<narrow>"):
                tgt = dec.split()[1:]
                assert lo == hi and len(tgt) == 1
                self.wm16[lo] = int(tgt[0], 16)
            if f[13]:
                assert lo == hi
                self.lower16[lo] = [int(f[13], 16)]
        # SpecialCasing.txt: the only unconditional lowercase special mapping
        self.lower16[0x0130] = [0x0069, 0x0307]

    # ---- 6.3.0 categories (RFC 8264 section 9)
    def has_compat(self, cp):
        if self.gc63[cp] == "Cn" or 0xD800 <= cp <= 0xDFFF:
            return False
        c = chr(cp)
        return unicodedata.normalize("NFKC", c) != c

    def sig(self, cp):
        """(exception value or None, bitmask over SIG_BITS)"""
        gc = self.gc63[cp]
        bits = 0
        def setb(name):
            nonlocal bits
            bits |= 1 << SIG_BITS.index(name)
        if gc == "Cn" and not self.nonchar[cp]:
            setb("unas")
        if 0x21 <= cp <= 0x7E:
            setb("ascii7")
        if self.joinctl[cp]:
            setb("jc")
        if self.hst[cp]:
            setb("jamo")
        if self.dicp[cp] or self.nonchar[cp]:
            setb("ign")
        if gc == "Cc":
            setb("ctrl")
        if self.has_compat(cp):
            setb("compat")
        if gc in ("Ll", "Lu", "Lo", "Nd", "Lm", "Mn", "Mc"):
            setb("ld")
        if gc in ("Lt", "Nl", "No", "Me"):
            setb("old")
        if gc == "Zs":
            setb("space")
        if gc in ("Sm", "Sc", "Sk", "So"):
            setb("sym")
        if gc in ("Pc", "Pd", "Ps", "Pe", "Pi", "Pf", "Po"):
            setb("punct")
        return EXCEPTIONS.get(cp), bits

    @staticmethod
    def derived_id(exc, bits):
        """RFC 8264 section 8 for IdentifierClass (python rendering; TLC evaluates its own)"""
        if exc is not None:
            return exc
        outcome = ["UNASSIGNED", "PVALID", "CONTEXTJ", "DISALLOWED", "DISALLOWED", "DISALLOWED", "ID_DIS",
                   "PVALID", "ID_DIS", "ID_DIS", "ID_DIS", "ID_DIS"]
        for i, o in enumerate(outcome):
            if bits & (1 << i):
                return o
        return "DISALLOWED"


def runs_of(n, fn):
    """run-compress fn over 0..n-1 into [lo, hi, value] triples"""
    out = []
    lo = 0
    cur = fn(0)
    for cp in range(1, n):
        v = fn(cp)
        if v != cur:
            out.append([lo, cp - 1, cur])
            lo, cur = cp, v
    out.append([lo, n - 1, cur])
    return out


def build_db(path):
    """write the oracle database consumed by the Rust harness and by the checks"""
    pins = check_pins()
    o = Oracle()
    sigs = [o.sig(cp) for cp in range(N)]
    db = {
        "pins": pins,
        "unicodedata_version": unicodedata.unidata_version,
        "sig_bits": SIG_BITS,
        "bidi_classes": BIDI_CLASSES,
        # exception value ("" = none) and bitmask
        "exc": [r for r in runs_of(N, lambda cp: sigs[cp][0] or "") if r[2] != ""],
        "sig": runs_of(N, lambda cp: sigs[cp][1]),
        "idp": runs_of(N, lambda cp: Oracle.derived_id(*sigs[cp])),
        "virama": [r for r in runs_of(N, lambda cp: 1 if o.ccc63[cp] == 9 else 0) if r[2]],
        "script": [r for r in runs_of(N, lambda cp: o.script[cp] or "") if r[2]],
        "jt": [r for r in runs_of(N, lambda cp: o.jt[cp]) if r[2] != "U"],
        "zs": [r for r in runs_of(N, lambda cp: 1 if o.gc16[cp] == "Zs" else 0) if r[2]],
        "wm": sorted([cp, t] for cp, t in o.wm16.items()),
        "bidi": [r for r in runs_of(N, lambda cp: o.bidi16[cp]) if r[2] != "L"],
        "assigned16": [r for r in runs_of(N, lambda cp: o.assigned16[cp]) if r[2]],
        "lower16": sorted([cp, t] for cp, t in o.lower16.items()),
        "gc63_lt": [r for r in runs_of(N, lambda cp: 1 if o.gc63[cp] == "Lt" else 0) if r[2]],
    }
    tmp = path + ".tmp%d" % os.getpid()
    with open(tmp, "w") as f:
        json.dump(db, f, separators=(",", ":"))
    os.replace(tmp, path)
    return db


if __name__ == "__main__":
    import sys, time
    t = time.time()
    db = build_db(sys.argv[1])
    print("oracle db: %d sig runs, %d idp runs, %.1fs" % (len(db["sig"]), len(db["idp"]), time.time() - t))
