------------------------------ MODULE Mappings ------------------------------
(***************************************************************************)
(* The character mappings of the profiles                                  *)
(* (precis-profiles/src/{usernames,passwords,nicknames,common}.rs).        *)
(* Each one declaratively ("map every character ...") and                  *)
(* implementation-shaped: find the first character that triggers a change, *)
(* copy the prefix s[..pos] by BYTE offset, rebuild the rest.  Byte        *)
(* offsets are explicit so that "slices inside a character" is a state     *)
(* predicate (SliceOk) instead of a crash.                                 *)
(***************************************************************************)
EXTENDS Base

SP == 32
Zs(W, c)  == W.u[c].zs
NonAsciiSpace(W, c) == c # SP /\ Zs(W, c)
Wm(W, c)  == W.u[c].wm            \* -1 if the character has no <wide>/<narrow> mapping
Lower(W, c) == W.u[c].lower       \* full lowercase mapping, a sequence

\* ---- declarative ---------------------------------------------------------------
WidthMap(W, s) == [i \in 1..Len(s) |-> IF Wm(W, s[i]) = -1 THEN s[i] ELSE Wm(W, s[i])]
CaseMap(W, s)  == FlatMap(LAMBDA c : Lower(W, c), s)
PwSpaces(W, s) == [i \in 1..Len(s) |-> IF NonAsciiSpace(W, s[i]) THEN SP ELSE s[i]]

\* Nickname: map Zs to SP, strip leading/trailing, collapse interior runs
AllSp(W, s) == [i \in 1..Len(s) |-> IF Zs(W, s[i]) THEN SP ELSE s[i]]
RECURSIVE Collapse(_)
Collapse(s) == IF Len(s) < 2 THEN s
               ELSE IF s[1] = SP /\ s[2] = SP THEN Collapse(Tail(s))
               ELSE <<s[1]>> \o Collapse(Tail(s))
RECURSIVE StripL(_)
StripL(s) == IF s # <<>> /\ s[1] = SP THEN StripL(Tail(s)) ELSE s
RECURSIVE StripR(_)
StripR(s) == IF s # <<>> /\ s[Len(s)] = SP THEN StripR(SubSeq(s, 1, Len(s) - 1)) ELSE s
NickSpaces(W, s) == Collapse(StripR(StripL(AllSp(W, s))))

\* ---- implementation-shaped: copy-on-first-change with byte offsets ---------------
\* str::find(pred): byte offset of the first matching character, or -1
FindByte(P(_), s) == LET i == First(P, s) IN IF i = 0 THEN -1 ELSE ByteOff(s, i)

\* A slice s[..pos] / s[pos..] is only defined on character boundaries.
SliceOk(s, pos) == pos >= 0 /\ pos <= BLen(s) /\ IsBoundary(s, pos)

\* generic shape:  match s.find(trigger) { None => s, Some(pos) => s[..pos] + map(s[pos..]) }
CopyOnFirst(Trigger(_), MapChar(_), s) ==
  LET pos == FindByte(Trigger, s) IN
  IF pos = -1 THEN s ELSE ToByte(s, pos) \o FlatMap(MapChar, FromByte(s, pos))

\* UPPER is the trigger predicate of the case mapping fast path: the code as repaired
\* uses "has a lowercase mapping"; the pre-repair code used char::is_uppercase.
WidthMapImpl(W, s) == CopyOnFirst(LAMBDA c : Wm(W, c) # -1, LAMBDA c : <<IF Wm(W, c) = -1 THEN c ELSE Wm(W, c)>>, s)
CaseMapImpl(W, Trigger(_), s) == CopyOnFirst(Trigger, LAMBDA c : Lower(W, c), s)
HasLower(W, c) == Lower(W, c) # <<c>>
PwSpacesImpl(W, s) == CopyOnFirst(LAMBDA c : NonAsciiSpace(W, c), LAMBDA c : <<IF NonAsciiSpace(W, c) THEN SP ELSE c>>, s)

\* ---- Nickname: find_disallowed_space + trim_spaces (nicknames.rs:19-118) ---------
\* first phase: registers begin, prev_space, last_c, offset; returns a byte offset or -1.
\* UNIT(s, i) is the "index" the code reports for character i: the byte offset
\* (char_indices, as repaired) or the character index (enumerate, the defect).
RECURSIVE FindSpaceFrom(_, _, _, _, _, _, _, _)
FindSpaceFrom(W, Unit(_, _), s, i, begin, prevSpace, lastC, offset) ==
  IF i > Len(s) THEN (IF lastC = SP THEN offset ELSE -1)
  ELSE LET c == s[i]  idx == Unit(s, i) IN
       IF ~Zs(W, c) THEN FindSpaceFrom(W, Unit, s, i + 1, FALSE, FALSE, c, idx)
       ELSE IF begin THEN idx
       ELSE IF prevSpace THEN idx
       ELSE IF c = SP THEN FindSpaceFrom(W, Unit, s, i + 1, begin, TRUE, c, idx)
       ELSE idx
FindDisallowedSpace(W, Unit(_, _), s) == FindSpaceFrom(W, Unit, s, 1, TRUE, FALSE, -1, 0)

\* second phase: rebuild from pos with registers begin, prev_space
RECURSIVE TrimFrom(_, _, _, _, _, _)
TrimFrom(W, s, i, res, begin, prevSpace) ==
  IF i > Len(s) THEN (IF res # <<>> /\ res[Len(res)] = SP THEN SubSeq(res, 1, Len(res) - 1) ELSE res)
  ELSE LET c == s[i] IN
       IF ~Zs(W, c) THEN TrimFrom(W, s, i + 1, Append(res, c), FALSE, FALSE)
       ELSE IF begin THEN TrimFrom(W, s, i + 1, res, begin, prevSpace)
       ELSE TrimFrom(W, s, i + 1, IF prevSpace THEN res ELSE Append(res, SP), begin, TRUE)

ByteUnit(s, i) == ByteOff(s, i)
CharUnit(s, i) == i - 1
\* InitFromPrefix: the rebuild starts from the state the copied prefix leaves (as repaired);
\* otherwise it always starts with begin = TRUE, prev_space = FALSE (the defect).
NickSpacesImplWith(W, Unit(_, _), initFromPrefix, s) ==
  LET pos == FindDisallowedSpace(W, Unit, s) IN
  IF pos = -1 THEN [ok |-> s]
  ELSE IF ~SliceOk(s, pos) THEN [panic |-> "slice", pos |-> pos]
  ELSE LET pre == ToByte(s, pos) IN
       [ok |-> TrimFrom(W, FromByte(s, pos), 1, pre,
                        IF initFromPrefix THEN pre = <<>> ELSE TRUE,
                        IF initFromPrefix THEN (pre # <<>> /\ pre[Len(pre)] = SP) ELSE FALSE)]
NickSpacesImpl(W, s) == NickSpacesImplWith(W, ByteUnit, TRUE, s)
=============================================================================
