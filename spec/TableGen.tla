------------------------------ MODULE TableGen ------------------------------
(***************************************************************************)
(* The build-time table generators of precis-tools, as state machines that *)
(* consume a UnicodeData-like input ONE LINE AT A TIME:                    *)
(*   FoldStep    First/Last folding   (ucd_parsers.rs:131-214)             *)
(*   SetStep     UcdTableGen / ViramaTableGen: a set of code points,       *)
(*               emitted sorted and run-merged (common.rs:39-83)           *)
(*   UnStep      UnassignedTableGen with its `range` register              *)
(*               (generators/ucd_generator.rs:357-400)                     *)
(*   BidiStep    BidiClassGen run compression with its pending run         *)
(*               (generators/bidi_class.rs, compress_into_ranges)          *)
(*   WmStep      WidthMappingTableGen                                      *)
(* A line is [cp, kind, v]: kind in {"single","first","last"}; v is the    *)
(* attribute value of the line (it drives general category, combining      *)
(* class, bidi class and width mapping at once: each generator looks at    *)
(* one attribute only).                                                    *)
(* Tables are sequences of Codepoints entries (Codepoints.tla).            *)
(***************************************************************************)
EXTENDS Codepoints

\* ---- First/Last folding --------------------------------------------------------
\* fold state: pending = -1 or the code point of an open <..., First> line; err = a message or ""
FoldInit == [pending |-> -1, pv |-> 0, err |-> ""]
\* returns [st |-> new fold state, out |-> <<>> or <<entry>>] where an entry is [lo, hi, v]
FoldStep(st, line) ==
  IF st.err # "" THEN [st |-> st, out |-> <<>>]
  ELSE IF st.pending # -1
       THEN (IF line.kind # "last" THEN [st |-> [st EXCEPT !.err = "expected end of range"], out |-> <<>>]
             ELSE IF st.pending > line.cp THEN [st |-> [st EXCEPT !.err = "start greater than end"], out |-> <<>>]
             ELSE [st |-> [st EXCEPT !.pending = -1], out |-> <<[lo |-> st.pending, hi |-> line.cp, v |-> line.v]>>])
       ELSE IF line.kind = "last" THEN [st |-> [st EXCEPT !.err = "end of range without start"], out |-> <<>>]
       ELSE IF line.kind = "first" THEN [st |-> [st EXCEPT !.pending = line.cp, !.pv = line.v], out |-> <<>>]
       ELSE [st |-> st, out |-> <<[lo |-> line.cp, hi |-> line.cp, v |-> line.v]>>]

\* ---- set-collecting generators ------------------------------------------------------
\* state: [set, err]; an entry is inserted code point by code point, a repeated code point is an error
SetInit == [set |-> {}, err |-> ""]
SetStep(st, e, wanted) ==
  IF st.err # "" \/ ~wanted THEN st
  ELSE IF (e.lo..e.hi) \cap st.set # {} THEN [st EXCEPT !.err = "codepoint already processed"]
  ELSE [st EXCEPT !.set = st.set \cup (e.lo..e.hi)]

\* get_codepoints_vector: sort, then merge consecutive numbers (registers: out, range)
RECURSIVE MergeFrom(_, _, _, _)
MergeFrom(S, x, out, rng) ==    \* x: next candidate number; rng = <<>> or <<start, end>>
  IF S = {} THEN (IF rng = <<>> THEN out ELSE Append(out, IF rng[1] = rng[2] THEN Single(rng[1]) ELSE Range(rng[1], rng[2])))
  ELSE LET m == CHOOSE y \in S : \A z \in S : y <= z IN
       IF rng = <<>> THEN MergeFrom(S \ {m}, m, out, <<m, m>>)
       ELSE IF m - rng[2] = 1 THEN MergeFrom(S \ {m}, m, out, <<rng[1], m>>)
       ELSE MergeFrom(S \ {m}, m, Append(out, IF rng[1] = rng[2] THEN Single(rng[1]) ELSE Range(rng[1], rng[2])), <<m, m>>)
SetTable(S) == MergeFrom(S, 0, <<>>, <<>>)

\* ---- unassigned gaps --------------------------------------------------------------------
\* registers: rs, re (the `range` register), vec (emitted entries)
UnInit == [rs |-> 0, re |-> 0, vec |-> <<>>]
AddCps(s, e, vec) == Append(vec, IF s = e THEN Single(s) ELSE Range(s, e))
UnStep(st, e) ==
  IF e.lo # e.hi
  THEN \* Codepoints::Range
       LET st1 == IF e.lo - st.re > 0 THEN [st EXCEPT !.re = e.lo - 1, !.vec = AddCps(st.rs, e.lo - 1, st.vec)] ELSE st IN
       [st1 EXCEPT !.rs = e.hi + 1, !.re = e.lo]
  ELSE \* Codepoints::Single
       LET st1 == IF e.lo - st.re # 0 THEN [st EXCEPT !.re = e.lo - 1, !.vec = AddCps(st.rs, e.lo - 1, st.vec)] ELSE st IN
       [st1 EXCEPT !.rs = e.lo + 1, !.re = e.lo + 1]

\* ---- bidi run compression -------------------------------------------------------------------
\* registers: run = <<>> or <<start, end, class>>; out = emitted (entry, class) pairs
BidiInit == [run |-> <<>>, out |-> <<>>]
EmitRun(out, run) == Append(out, [x |-> IF run[1] = run[2] THEN Single(run[1]) ELSE Range(run[1], run[2]), c |-> run[3]])
BidiStep(st, e, class) ==
  IF st.run # <<>> /\ st.run[3] = class /\ st.run[2] + 1 = e.lo
  THEN [st EXCEPT !.run = <<st.run[1], e.hi, class>>]
  ELSE [run |-> <<e.lo, e.hi, class>>, out |-> IF st.run = <<>> THEN st.out ELSE EmitRun(st.out, st.run)]
BidiFlush(st) == IF st.run = <<>> THEN st.out ELSE EmitRun(st.out, st.run)

\* ---- width mapping ---------------------------------------------------------------------------
\* vec of [x |-> entry, t |-> target]
WmStep(vec, e, hasMapping, target) ==
  IF hasMapping THEN Append(vec, [x |-> IF e.lo = e.hi THEN Single(e.lo) ELSE Range(e.lo, e.hi), t |-> target]) ELSE vec

\* ---- denotations -------------------------------------------------------------------------------
DenoteSet(t, U) == {cp \in U : \E i \in 1..Len(t) : Contains(t[i], cp)}
\* searchable the way the library searches: binary search finds an entry iff one contains the code point
Searchable(t, U) == \A cp \in U : InTable(t, cp) = (\E i \in 1..Len(t) : Contains(t[i], cp))
\* for keyed tables (bidi, width): the entry found holds the value of the code point
KeyedSearch(t, cp) == Find([i \in 1..Len(t) |-> t[i].x], cp)
=============================================================================
