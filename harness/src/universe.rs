//! Generated model alphabets (DESIGN.md 2.3): closes a set of code points under everything a
//! rule can produce and prints the attribute record of every character of the closure.
//! UCD-derived attributes come from the oracle database; lowercase and normalization data
//! come from std / the unicode-normalization crate CALLED DIRECTLY (the reference the
//! properties name), never through sancane/precis.

use crate::oracle::Oracle;
use crate::util::*;
use serde_json::{json, Value};
use std::collections::BTreeSet;
use unicode_normalization::char::{canonical_combining_class, compose, decompose_canonical, decompose_compatible};

pub fn cdec(c: char) -> Vec<u32> {
    let mut v = Vec::new();
    decompose_canonical(c, |x| v.push(x as u32));
    v
}

pub fn kdec(c: char) -> Vec<u32> {
    let mut v = Vec::new();
    decompose_compatible(c, |x| v.push(x as u32));
    v
}

pub fn closure(o: &Oracle, start: &[u32]) -> (BTreeSet<u32>, Vec<(u32, u32, u32)>) {
    let mut set: BTreeSet<u32> = start.iter().cloned().collect();
    loop {
        let mut add: Vec<u32> = Vec::new();
        for cp in set.iter() {
            let c = char::from_u32(*cp).unwrap();
            add.extend(Oracle::std_lower(c));
            if let Some(t) = o.wm.get(cp) {
                add.push(*t);
            }
            add.extend(cdec(c));
            add.extend(kdec(c));
            if o.zs[*cp as usize] {
                add.push(0x20);
            }
        }
        for a in set.iter() {
            for b in set.iter() {
                if let Some(c) = compose(char::from_u32(*a).unwrap(), char::from_u32(*b).unwrap()) {
                    add.push(c as u32);
                }
            }
        }
        let before = set.len();
        set.extend(add);
        if set.len() == before {
            break;
        }
    }
    let mut comp = Vec::new();
    for a in set.iter() {
        for b in set.iter() {
            if let Some(c) = compose(char::from_u32(*a).unwrap(), char::from_u32(*b).unwrap()) {
                comp.push((*a, *b, c as u32));
            }
        }
    }
    (set, comp)
}

pub fn full_attrs(o: &Oracle, cp: u32) -> Value {
    let c = char::from_u32(cp).unwrap();
    let mut v = o.attrs(cp);
    let m = v.as_object_mut().unwrap();
    m.insert("ccc".into(), json!(canonical_combining_class(c)));
    m.insert("cdec".into(), json!(cdec(c)));
    m.insert("kdec".into(), json!(kdec(c)));
    v
}

pub fn main(args: &[String]) {
    let db = arg_value(args, "--oracle").unwrap_or_else(|| tool_error("--oracle"));
    let cps: Vec<u32> = arg_value(args, "--cps")
        .unwrap_or_default()
        .split(',')
        .filter(|s| !s.is_empty())
        .map(|s| s.parse().unwrap())
        .collect();
    let o = Oracle::load(&db);
    let (set, comp) = closure(&o, &cps);
    let chars: Vec<Value> = set.iter().map(|cp| full_attrs(&o, *cp)).collect();
    println!("{}", json!({"chars": chars, "comp": comp}));
}
